(* C05_burst_*: the next-index exchange between a leader and one follower when the leader sends,
   as __sendAppendEntries does, EVERY batch up to the end of its log in one call (the burst), the
   follower handles all of them in order and the leader handles all the answers in order.
   The round is built from the model's own ae_loop (with the fuel and the clock budget of send_ae),
   on_message of the follower and on_message of the leader.

   With the rule of commit 472b088 (a reset answer never moves the next index forward:
   next_idx := min next cur) the back-off converges; with the rule before it (next_idx := next) the
   burst undoes the step back and the next index oscillates for ever: burst_old_rule_livelock. *)
From Coq Require Import ZArith NArith List Bool Lia ZifyBool ZifyN.
From RecordUpdate Require Import RecordSet.
From PSO Require Import Raft.Types Raft.Node Raft.Net Raft.Obs Raft.ProofsSnapshotBase Raft.ProofsSnapshot
  Raft.ProofsSnapshotChunks Raft.ProofsDisk Raft.ProofsDiskAck Raft.ProofsProgressBackoff.
Import ListNotations.
Import RecordSetNotations.
Open Scope N_scope.

(* ================= the full round ================= *)
(* deliver, with the receiver's handler as a parameter (deliver = deliver_with on_message) *)
Definition deliver_with (h : env -> nid -> msg -> node -> S) (e : env) (from : nid) (ms : list msg) (n : node)
  : node * list out :=
  fold_left (fun acc m => let s := h e from m (fst acc) in (nd s, snd acc ++ outs s)) ms (n, []).

Lemma deliver_with_on_message : forall e from ms n, deliver_with on_message e from ms n = deliver e from ms n.
Proof. reflexivity. Qed.

(* the state in which send_ae enters its loop over the peers, and the fuel it gives to each peer *)
Definition burst_start (e : env) (n : node) : S :=
  let s := (start_S e n) <| used := 0 |> <| jmp := false |> in
  upd (fun n => n <| new_ae_time := (tnow s + period (cf e))%Z |>) s.

Definition burst_fuel (e : env) (n : node) : nat :=
  Datatypes.S (N.to_nat (budget e) + length (targets e n) + 1).

(* what send_ae does for the peer x: the model's loop, first turn unconditional (single = true) *)
Definition burst (e : env) (x : nid) (n : node) : S :=
  let s := burst_start e n in
  ae_loop (burst_fuel e (nd s)) e (tnow s) x true false s.

(* with x as the only peer this IS send_ae *)
Lemma send_ae_single : forall e x n,
  targets e n = [x] -> smem x (connected n) = true -> send_ae e (start_S e n) = burst e x n.
Proof.
  intros e x n Ht Hc. unfold send_ae, burst, burst_fuel, burst_start.
  assert (Htg : forall z, targets e (nd (upd (fun n0 => n0 <| new_ae_time := z |>)
                   (start_S e n <| used := 0 |> <| jmp := false |>))) = [x]).
  { intros z. rewrite <- Ht. reflexivity. }
  rewrite !Htg. cbn [fold_left].
  unfold ok at 1. cbn [exc upd start_S]. cbn [N.eqb].
  unfold upd at 1. cbn [nd connected]. cbn. rewrite Hc. reflexivity.
Qed.

Definition round_full_with (h : env -> nid -> msg -> node -> S) (e : env) (lid fid : nid) (st : node * node)
  : node * node :=
  let (nl, nf) := st in
  let s1 := burst e fid nl in
  let (nf', os) := deliver e lid (sends_to fid (outs s1)) nf in
  let (nl', _) := deliver_with h e fid (sends_to lid os) (nd s1) in
  (nl', nf').

Definition round_full := round_full_with on_message.

Fixpoint rounds_full (k : nat) (e : env) (lid fid : nid) (st : node * node) : node * node :=
  match k with O => st | Datatypes.S k' => rounds_full k' e lid fid (round_full e lid fid st) end.

(* ================= folds ================= *)
Lemma deliver_with_acc : forall h e from ms n acc,
  fold_left (fun acc m => let s := h e from m (fst acc) in (nd s, snd acc ++ outs s)) ms (n, acc) =
  (fst (deliver_with h e from ms n), acc ++ snd (deliver_with h e from ms n)).
Proof.
  intros h e from ms. unfold deliver_with. induction ms as [|m ms IH]; intros n acc; cbn [fold_left fst snd].
  - rewrite app_nil_r. reflexivity.
  - rewrite IH. rewrite (IH _ ([] ++ _)). cbn [fst snd app]. rewrite app_assoc. reflexivity.
Qed.

Lemma deliver_with_cons : forall h e from m ms n,
  deliver_with h e from (m :: ms) n =
  (fst (deliver_with h e from ms (nd (h e from m n))),
   outs (h e from m n) ++ snd (deliver_with h e from ms (nd (h e from m n)))).
Proof.
  intros. unfold deliver_with at 1. cbn [fold_left fst snd app]. apply deliver_with_acc.
Qed.

Lemma deliver_cons : forall e from m ms n,
  deliver e from (m :: ms) n =
  (fst (deliver e from ms (nd (on_message e from m n))),
   outs (on_message e from m n) ++ snd (deliver e from ms (nd (on_message e from m n)))).
Proof. intros. apply (deliver_with_cons on_message). Qed.

Lemma deliver_nil : forall e from n, deliver e from [] n = (n, []).
Proof. reflexivity. Qed.

Lemma sends_to_map_send : forall x (ms : list msg), sends_to x (map (Send x) ms) = ms.
Proof.
  intros x ms. unfold sends_to. induction ms as [|m ms IH]; cbn [map flat_map]; auto.
  rewrite N.eqb_refl, IH. reflexivity.
Qed.

(* ================= the leader's loop ================= *)
Lemma ae_body_eq : forall e x next s,
  first_idx (log (nd s)) < next -> no_big e (log (nd s)) -> smem x (tconn (nd s)) = true ->
  ae_body e x next s =
  (emit (Send x (AE (term (nd s)) (commit (nd s)) (get_prev (log (nd s)) next) (batch_from e (log (nd s)) next)))
     (if next <=? last_idx (log (nd s))
      then upd (fun n => n <| next_idx := aset x (last_idx (batch_from e (log (nd s)) next) + 1) (next_idx n) |>) s
      else s), false).
Proof.
  intros e x next s Hf Hnb Hc. unfold ae_body, batch_from.
  destruct (first_idx (log (nd s)) <? next) eqn:E; [|lia].
  destruct (next <=? last_idx (log (nd s))) eqn:En.
  - set (es := get_entries (log (nd s)) (Some next) None (Some (batch (cf e)))).
    assert (Hes : forall y, In y es -> csz (ecmd y) < batch (cf e)).
    { intros y Hy. apply Hnb. eapply get_entries_In; eauto. }
    destruct es as [|e1 [|e2 r]] eqn:Ees.
    + unfold send, upd, emit; cbn. rewrite Hc. reflexivity.
    + assert (Hb : (batch (cf e) <=? csz (ecmd e1)) = false).
      { specialize (Hes e1 (or_introl eq_refl)). lia. }
      rewrite Hb. unfold send, upd, emit; cbn. rewrite Hc. reflexivity.
    + unfold send, upd, emit; cbn. rewrite Hc. reflexivity.
  - unfold send, emit; cbn. rewrite Hc. reflexivity.
Qed.

(* the next indices at which the loop cuts its batches: from nx, batch after batch, to the log end *)
Inductive chain (e : env) (L : list entry) : N -> list N -> Prop :=
| chain_end : forall nx, last_idx L < nx -> chain e L nx []
| chain_step : forall nx ns, nx <= last_idx L ->
    chain e L (last_idx (batch_from e L nx) + 1) ns -> chain e L nx (nx :: ns).

Definition ae_msg (e : env) (T c : N) (L : list entry) (nx : N) : msg :=
  AE T c (get_prev L nx) (batch_from e L nx).

Lemma chain_nil_inv : forall e L nx, chain e L nx [] -> last_idx L < nx.
Proof. intros e L nx H. inversion H. assumption. Qed.

Lemma chain_bounds : forall e L nx ns, log_wf L -> first_idx L < nx -> chain e L nx ns ->
  Forall (fun y => nx <= y /\ y <= last_idx L) ns.
Proof.
  intros e L nx ns Hwf Hf H. induction H as [nx Hl|nx ns Hl Hc IH]; [constructor|].
  destruct (batch_from_bounds e L nx Hwf Hf Hl) as (_ & _ & B1 & B2).
  constructor; [lia|]. specialize (IH ltac:(lia)).
  eapply Forall_impl; [|exact IH]. cbv beta. intros y Hy. lia.
Qed.

Section Loop.
Variable e : env.
Variable x : nid.
Variables T c : N.
Variable L : list entry.
Variable start : Z.
Hypothesis Hper : (0 <= period (cf e))%Z.
Hypothesis Hnb : no_big e L.
Hypothesis HLwf : log_wf L.

(* the leader's handler state between two turns of the loop *)
Record lst (next : N) (s : S) : Prop := {
  ls_exc : exc s = 0;
  ls_jmp : jmp s = false;
  ls_now : tnow s = start;
  ls_role : role (nd s) = LEADER;
  ls_term : term (nd s) = T;
  ls_commit : commit (nd s) = c;
  ls_log : log (nd s) = L;
  ls_conn : smem x (tconn (nd s)) = true;
  ls_next : aget x (next_idx (nd s)) = Some next
}.

Definition same_leader (s s' : S) : Prop :=
  role (nd s') = role (nd s) /\ term (nd s') = term (nd s) /\ log (nd s') = log (nd s) /\
  tconn (nd s') = tconn (nd s) /\ match_idx (nd s') = match_idx (nd s) /\ commit (nd s') = commit (nd s).

(* one turn: the batch at next is sent, next_idx moves behind it, the clock budget is charged *)
Lemma loop_turn : forall next s, lst next s -> first_idx L < next -> next <= last_idx L ->
  used s + 1 <= budget e ->
  exists s2, ae_body e x next s = (s2, false) /\
    let s3 := delta_read e s2 in
    lst (last_idx (batch_from e L next) + 1) s3 /\ same_leader s s3 /\ used s3 = used s + 1 /\
    outs s3 = outs s ++ [Send x (ae_msg e T c L next)] /\ ok s2 = true /\
    (period (cf e) <? tnow s3 - start)%Z = false.
Proof.
  intros next s H Hf Hl Hu. destruct H.
  eexists. split.
  { rewrite ae_body_eq by (rewrite ?ls_log0; auto). rewrite ls_log0, ls_term0, ls_commit0.
    destruct (next <=? last_idx L) eqn:En; [|lia]. reflexivity. }
  cbv zeta. unfold delta_read.
  match goal with |- context [(budget e <? ?u) && ?j] => assert (Hb : (budget e <? u) && j = false) end.
  { unfold emit, upd. cbn. apply andb_false_iff. left. lia. }
  rewrite Hb. unfold emit, upd, ok, same_leader. cbn.
  repeat split; auto.
  - apply aget_aset_same.
  - rewrite ls_exc0. reflexivity.
  - rewrite ls_now0. lia.
Qed.

Lemma loop_chain : forall fuel next s, lst next s -> first_idx L < next -> next <= last_idx L + 1 ->
  used s + (last_idx L + 1 - next) <= budget e ->
  (N.to_nat (last_idx L + 1 - next) < fuel)%nat ->
  let s' := ae_loop fuel e start x false false s in
  exists ns, chain e L next ns /\ outs s' = outs s ++ map (fun y => Send x (ae_msg e T c L y)) ns /\
    same_leader s s' /\ aget x (next_idx (nd s')) = Some (last_idx L + 1).
Proof.
  induction fuel as [|f IH]; intros next s H Hf Hhi Hu Hfu; [lia|].
  cbv zeta. cbn [ae_loop]. rewrite (ls_next _ _ H), (ls_log _ _ H).
  destruct (next <=? last_idx L) eqn:En; cbn [orb].
  - destruct (loop_turn next s H Hf ltac:(lia) ltac:(lia)) as (s2 & E2 & H3 & Hsame & Hused & Houts & Hok & Hclk).
    rewrite E2, Hok, Hclk.
    destruct (batch_from_bounds e L next HLwf Hf ltac:(lia)) as (_ & _ & B1 & B2).
    destruct (IH _ _ H3) as (ns & Hch & Ho & Hs & Hn); try lia.
    exists (next :: ns). split; [constructor; [lia|exact Hch]|].
    split; [rewrite Ho, Houts, <- app_assoc; reflexivity|].
    split; [|exact Hn].
    unfold same_leader in *. intuition congruence.
  - exists []. split; [constructor; lia|]. cbn [map]. rewrite app_nil_r.
    split; [reflexivity|]. split; [unfold same_leader; auto 10|].
    rewrite (ls_next _ _ H). f_equal. lia.
Qed.

(* the whole burst: the first turn is unconditional (a heartbeat when there is nothing to send) *)
Lemma burst_loop : forall fuel next s, lst next s -> first_idx L < next -> next <= last_idx L + 1 ->
  used s + (last_idx L + 1 - next) + 1 <= budget e ->
  (N.to_nat (last_idx L + 1 - next) + 1 < fuel)%nat ->
  let s' := ae_loop fuel e start x true false s in
  exists ns, outs s' = outs s ++ map (fun y => Send x (ae_msg e T c L y)) (next :: ns) /\
    (next <= last_idx L -> chain e L next (next :: ns)) /\ (last_idx L < next -> ns = []) /\
    same_leader s s' /\ aget x (next_idx (nd s')) = Some (last_idx L + 1).
Proof.
  intros fuel next s H Hf Hhi Hu Hfu. cbv zeta.
  destruct (next <=? last_idx L) eqn:En.
  - (* the same as the loop without the single flag *)
    assert (Heq : ae_loop fuel e start x true false s = ae_loop fuel e start x false false s).
    { destruct fuel; [reflexivity|]. cbn [ae_loop]. rewrite (ls_next _ _ H), (ls_log _ _ H), En. reflexivity. }
    rewrite Heq. destruct (loop_chain fuel next s H Hf Hhi ltac:(lia) ltac:(lia)) as (ns & Hch & Ho & Hs & Hn).
    inversion Hch; subst; [lia|].
    eexists. split; [exact Ho|]. split; [intros _; exact Hch|]. split; [lia|]. split; assumption.
  - destruct fuel as [|f]; [lia|]. cbn [ae_loop].
    rewrite (ls_next _ _ H), (ls_log _ _ H), En. cbn [orb].
    pose proof H as H0. destruct H.
    rewrite ae_body_eq by (rewrite ?ls_log0; auto). rewrite ls_log0, ls_term0, ls_commit0, En.
    assert (Hok : ok (emit (Send x (AE T c (get_prev L next) (batch_from e L next))) s) = true).
    { unfold ok, emit. cbn. rewrite ls_exc0. reflexivity. }
    rewrite Hok.
    set (s2 := emit (Send x (AE T c (get_prev L next) (batch_from e L next))) s).
    assert (Hd : delta_read e s2 = s2 <| used := used s + 1 |>).
    { unfold delta_read. subst s2. unfold emit. cbn.
      assert (Hb : (budget e <? used s + 1) = false) by lia. rewrite Hb. reflexivity. }
    rewrite Hd. cbn [tnow set]. unfold s2 at 1. unfold emit at 1. cbn. rewrite ls_now0.
    assert (Hclk : (period (cf e) <? start - start)%Z = false) by lia. rewrite Hclk.
    assert (H3 : lst next (s2 <| used := used s + 1 |>)).
    { subst s2. unfold emit. constructor; cbn; auto. }
    destruct (loop_chain f next _ H3 Hf Hhi) as (ns & Hch & Ho & Hs & Hn).
    { cbn. lia. }
    { lia. }
    inversion Hch; subst; [|lia].
    exists []. split.
    { rewrite Ho. subst s2. unfold emit. cbn. rewrite app_nil_r. reflexivity. }
    split; [lia|]. split; [auto|]. split; [|exact Hn].
    unfold same_leader in *. subst s2. unfold emit in *. cbn in *. exact Hs.
Qed.

End Loop.

(* ================= answers of the follower, handled by the leader ================= *)
(* a rejected append_entries and the next index the follower asks for *)
Definition rejR (T : N) (F : list entry) (m : msg) (nx : N) : Prop :=
  exists c p pt es, m = AE T c (Some (p, pt)) es /\
   ((get_entries F (Some p) None None = [] /\ nx = last_idx F + 1) \/
    (exists p0 tl, get_entries F (Some p) None None = p0 :: tl /\ eterm p0 <> pt /\ nx = p)).

Lemma deliver_reject : forall e lid T ms nxs nf,
  Forall2 (rejR T (log nf)) ms nxs -> term nf <= T -> smem lid (tconn nf) = true ->
  let r := deliver e lid ms nf in
  log (fst r) = log nf /\ term (fst r) <= T /\ tconn (fst r) = tconn nf /\
  sends_to lid (snd r) = map (fun nx => NextIdx T nx true false) nxs.
Proof.
  intros e lid T ms. induction ms as [|m ms IH]; intros nxs nf H Ht Hc; inversion H; subst; cbv zeta.
  - rewrite deliver_nil. cbn. auto.
  - rewrite deliver_cons. cbn [fst snd].
    match goal with Hr : rejR _ _ m _ |- _ => destruct Hr as (c & p & pt & es & -> & Hcase) end.
    assert (Hstep : log (nd (on_message e lid (AE T c (Some (p, pt)) es) nf)) = log nf /\
                    term (nd (on_message e lid (AE T c (Some (p, pt)) es) nf)) = T /\
                    tconn (nd (on_message e lid (AE T c (Some (p, pt)) es) nf)) = tconn nf /\
                    sends_to lid (outs (on_message e lid (AE T c (Some (p, pt)) es) nf)) = [NextIdx T y true false]).
    { destruct Hcase as [[Hg ->]|(p0 & tl & Hg & Hne & ->)].
      - exact (follower_missing e lid T c p pt es nf Ht Hc Hg).
      - exact (follower_mismatch e lid T c p pt es nf p0 tl Ht Hc Hg Hne). }
    destruct Hstep as (S1 & S2 & S3 & S4).
    set (n1 := nd (on_message e lid (AE T c (Some (p, pt)) es) nf)) in *.
    destruct (IH l' n1) as (I1 & I2 & I3 & I4).
    { rewrite S1. assumption. }
    { lia. }
    { rewrite S3. exact Hc. }
    rewrite sends_to_app, S4, I4. cbn [map app]. repeat split; congruence.
Qed.

Definition fold_min (nxs : list N) (cur : N) : N := fold_left (fun a nx => N.min nx a) nxs cur.

Lemma deliver_resets : forall e fid T nxs nl m0 cur,
  role nl = LEADER -> term nl = T -> aget fid (match_idx nl) = Some m0 -> aget fid (next_idx nl) = Some cur ->
  let n' := fst (deliver e fid (map (fun nx => NextIdx T nx true false) nxs) nl) in
  role n' = LEADER /\ term n' = T /\ log n' = log nl /\ tconn n' = tconn nl /\ commit n' = commit nl /\
  aget fid (match_idx n') = Some m0 /\ aget fid (next_idx n') = Some (fold_min nxs cur).
Proof.
  intros e fid T nxs. induction nxs as [|nx nxs IH]; intros nl m0 cur Hr Ht Hm Hn; cbv zeta.
  - cbn [map]. rewrite deliver_nil. cbn. auto 10.
  - cbn [map]. rewrite deliver_cons. cbn [fst].
    destruct (leader_next_idx e fid T nx true false nl m0 cur Hr Ht Hm Hn) as (N1 & N2 & N3 & N4 & N5 & N6 & N7).
    cbn [andb] in N6, N7.
    destruct (IH _ _ _ N1 N2 N6 N7) as (I1 & I2 & I3 & I4 & I5 & I6 & I7).
    repeat split; try congruence. exact I7.
Qed.

Lemma fold_min_le : forall nxs cur, fold_min nxs cur <= cur.
Proof.
  induction nxs as [|nx nxs IH]; intros cur; unfold fold_min in *; cbn [fold_left]; [lia|].
  specialize (IH (N.min nx cur)). lia.
Qed.

Lemma fold_min_mono : forall nxs a b, a <= b -> fold_min nxs a <= fold_min nxs b.
Proof.
  induction nxs as [|nx nxs IH]; intros a b Hab; unfold fold_min in *; cbn [fold_left]; [lia|].
  apply IH. lia.
Qed.

Lemma fold_min_in : forall nxs cur y, In y nxs -> fold_min nxs cur <= y.
Proof.
  induction nxs as [|nx nxs IH]; intros cur y Hin; [contradiction|].
  unfold fold_min in *. cbn [fold_left]. destruct Hin as [->|Hin].
  - pose proof (fold_min_le nxs (N.min y cur)). unfold fold_min in *. lia.
  - apply IH. exact Hin.
Qed.

Lemma fold_min_lower : forall nxs cur lo, Forall (fun y => lo <= y) nxs -> lo <= cur -> lo <= fold_min nxs cur.
Proof.
  induction nxs as [|nx nxs IH]; intros cur lo H Hc; unfold fold_min in *; cbn [fold_left]; [lia|].
  inversion H; subst. apply IH; auto. lia.
Qed.

Lemma fold_min_exact : forall nxs cur lo, Forall (fun y => lo <= y) nxs -> In lo nxs -> lo <= cur ->
  fold_min nxs cur = lo.
Proof.
  intros nxs cur lo H Hin Hc. pose proof (fold_min_lower nxs cur lo H Hc). pose proof (fold_min_in nxs cur lo Hin). lia.
Qed.

(* success answers with next indices up to hi, the last one hi: afterwards next_idx = hi *)
Lemma deliver_successes : forall e fid T hi nxs nl m0 cur,
  role nl = LEADER -> term nl = T -> aget fid (match_idx nl) = Some m0 -> aget fid (next_idx nl) = Some cur ->
  (cur = hi \/ (m0 + 1 = cur /\ cur <= hi)) -> Forall (fun y => y <= hi) nxs ->
  let n' := fst (deliver e fid (map (fun nx => NextIdx T nx false true) nxs) nl) in
  role n' = LEADER /\ term n' = T /\ log n' = log nl /\ tconn n' = tconn nl /\ commit n' = commit nl /\
  exists m1 cur', aget fid (match_idx n') = Some m1 /\ aget fid (next_idx n') = Some cur' /\ m0 <= m1 /\
    (cur' = hi \/ (m1 + 1 = cur' /\ cur' <= hi)) /\ (nxs <> [] -> last nxs 0 - 1 <= m1).
Proof.
  intros e fid T hi nxs. induction nxs as [|nx nxs IH]; intros nl m0 cur Hr Ht Hm Hn Hinv Hall; cbv zeta.
  - cbn [map]. rewrite deliver_nil. cbn [fst]. repeat split; auto.
    exists m0, cur. repeat split; auto; try lia. congruence.
  - cbn [map]. rewrite deliver_cons. cbn [fst].
    pose proof (Forall_inv Hall) as Hy. pose proof (Forall_inv_tail Hall) as Hall'. cbv beta in Hy.
    destruct (leader_next_idx e fid T nx false true nl m0 cur Hr Ht Hm Hn) as (N1 & N2 & N3 & N4 & N5 & N6 & N7).
    cbn [andb] in N6, N7.
    set (n1 := nd (on_message e fid (NextIdx T nx false true) nl)) in *.
    assert (Hinv1 : exists m' c', aget fid (match_idx n1) = Some m' /\ aget fid (next_idx n1) = Some c' /\
                     m0 <= m' /\ nx - 1 <= m' /\ (c' = hi \/ (m' + 1 = c' /\ c' <= hi))).
    { destruct (m0 <? nx - 1) eqn:Em.
      - exists (nx - 1), nx. repeat split; auto; try lia.
      - exists m0, cur. repeat split; auto; try lia. }
    destruct Hinv1 as (m' & c' & M1 & M2 & M3 & M4 & M5).
    destruct (IH n1 m' c' N1 N2 M1 M2 M5 Hall') as (I1 & I2 & I3 & I4 & I5 & m1 & cur' & J1 & J2 & J3 & J4 & J5).
    repeat split; try congruence.
    exists m1, cur'. repeat split; auto; try lia.
    intros _. destruct nxs as [|z zs]; [cbn; lia|].
    change (last (nx :: z :: zs) 0) with (last (z :: zs) 0). apply J5. discriminate.
Qed.

Ltac dbinv B :=
  destruct B as [bi_role0 bi_term0 bi_log0 bi_L0 bi_conn_l0 bi_next0 bi_match0 bi_fterm0 bi_conn_f0 bi_F0
                 bi_Fwf0 bi_C0 bi_conflict0 bi_lo0 bi_hi0].

Section Burst.
Variable e : env.
Variables lid fid : nid.
Variable T : N.
Variable L : list entry.
Hypothesis Hdyn : dyn (cf e) = false.
Hypothesis Hbatch : 1 <= batch (cf e).
Hypothesis Hnb : no_big e L.
Hypothesis HLwf : log_wf L.
(* the clock: a non-negative period, and a budget of loop turns (env field budget: after that many
   turns of one __sendAppendEntries call the clock moves on and the loop stops) that covers the log *)
Hypothesis Hper : (0 <= period (cf e))%Z.
Hypothesis Hbud : N.of_nat (length L) <= budget e.

Lemma round_full_eq : forall nl nf,
  round_full e lid fid (nl, nf) =
  let s1 := burst e fid nl in
  let r := deliver e lid (sends_to fid (outs s1)) nf in
  (fst (deliver e fid (sends_to lid (snd r)) (nd s1)), fst r).
Proof.
  intros. unfold round_full, round_full_with. cbv zeta.
  destruct (deliver e lid (sends_to fid (outs (burst e fid nl))) nf) as [nf' os]. cbn [fst snd].
  rewrite deliver_with_on_message.
  destruct (deliver e fid (sends_to lid os) (nd (burst e fid nl))). reflexivity.
Qed.

(* what the burst sends and what the leader's node looks like afterwards *)
Lemma burst_spec : forall nl next,
  role nl = LEADER -> term nl = T -> log nl = L -> smem fid (tconn nl) = true ->
  aget fid (next_idx nl) = Some next -> first_idx L < next -> next <= last_idx L + 1 -> L <> [] ->
  let s1 := burst e fid nl in
  exists ns, sends_to fid (outs s1) = map (ae_msg e T (commit nl) L) (next :: ns) /\
    (next <= last_idx L -> chain e L next (next :: ns)) /\ (last_idx L < next -> ns = []) /\
    role (nd s1) = LEADER /\ term (nd s1) = T /\ log (nd s1) = L /\ tconn (nd s1) = tconn nl /\
    match_idx (nd s1) = match_idx nl /\ aget fid (next_idx (nd s1)) = Some (last_idx L + 1).
Proof.
  intros nl next Hr Ht Hl Hc Hn Hf Hhi Hne. cbv zeta. unfold burst.
  pose proof (consec_last_idx _ _ HLwf Hne) as Hq.
  assert (Hst : lst fid T (commit nl) L (tnow (burst_start e nl)) next (burst_start e nl)).
  { unfold burst_start, upd. constructor; cbn; auto. }
  destruct (burst_loop e fid T (commit nl) L (tnow (burst_start e nl)) Hper Hnb HLwf
              (burst_fuel e (nd (burst_start e nl))) next (burst_start e nl) Hst Hf Hhi)
    as (ns & Ho & Hch & Hnil & Hs & Hnx).
  { unfold burst_start, upd. cbn. lia. }
  { unfold burst_fuel. lia. }
  set (s1 := ae_loop _ _ _ _ _ _ _) in *. clearbody s1.
  exists ns. rewrite Ho.
  split.
  { change (outs (burst_start e nl)) with (@nil out). cbn [app].
    rewrite <- (map_map (ae_msg e T (commit nl) L) (Send fid)). apply sends_to_map_send. }
  split; [exact Hch|]. split; [exact Hnil|].
  destruct Hs as (S1 & S2 & S3 & S4 & S5 & S6).
  unfold burst_start, upd in S1, S2, S3, S4, S5. cbn in S1, S2, S3, S4, S5.
  repeat split; try congruence.
Qed.

(* the entry before index p + 1, beyond the common segment, in the leader's and the follower's log *)
Lemma leader_prev : forall preL C restL p, L = preL ++ C ++ restL -> C <> [] ->
  last_idx C < p -> p <= last_idx L ->
  exists a, nth_error restL (N.to_nat (p - last_idx C - 1)) = Some a /\ get_prev L (p + 1) = Some (p, eterm a).
Proof.
  intros preL C restL p HL HC Hlo Hhi.
  assert (HwfL : log_wf (preL ++ C ++ restL)) by (rewrite <- HL; exact HLwf).
  destruct (seg_idx preL C restL HwfL HC) as (SL1 & SL2 & SL3 & SL4). rewrite <- HL in SL3, SL4.
  set (j := N.to_nat (p - last_idx C - 1)).
  assert (HjL : (j < length restL)%nat) by (subst j; lia).
  assert (Hidx : last_idx C + 1 + N.of_nat j = p) by (subst j; lia).
  pose proof (get_entries_seg_tail preL C restL j (Some 1) HwfL HC HjL) as HgL.
  rewrite <- HL, Hidx in HgL. change (N.to_nat 1) with 1%nat in HgL.
  destruct (nth_error restL j) as [a|] eqn:Ea; [|apply nth_error_None in Ea; lia].
  destruct (nth_error_skipn_cons _ _ _ Ea) as [rL HsL]. rewrite HsL in HgL. cbn [firstn] in HgL.
  exists a. split; [reflexivity|]. unfold get_prev. replace (p + 1 - 1) with p by lia. rewrite HgL. reflexivity.
Qed.

Lemma follower_at : forall F preF C restF p, F = preF ++ C ++ restF -> log_wf F -> C <> [] ->
  last_idx C < p -> p <= last_idx F ->
  exists b tl, nth_error restF (N.to_nat (p - last_idx C - 1)) = Some b /\
    get_entries F (Some p) None None = b :: tl.
Proof.
  intros F preF C restF p HF Hwf HC Hlo Hhi.
  assert (HwfF : log_wf (preF ++ C ++ restF)) by (rewrite <- HF; exact Hwf).
  destruct (seg_idx preF C restF HwfF HC) as (SF1 & SF2 & SF3 & SF4). rewrite <- HF in SF3, SF4.
  set (j := N.to_nat (p - last_idx C - 1)).
  assert (HjF : (j < length restF)%nat) by (subst j; lia).
  assert (Hidx : last_idx C + 1 + N.of_nat j = p) by (subst j; lia).
  pose proof (get_entries_seg_tail preF C restF j None HwfF HC HjF) as HgF.
  rewrite <- HF, Hidx in HgF.
  destruct (nth_error restF j) as [b|] eqn:Eb; [|apply nth_error_None in Eb; lia].
  destruct (nth_error_skipn_cons _ _ _ Eb) as [rF HsF]. rewrite HsF in HgF.
  exists b, rF. split; [reflexivity|exact HgF].
Qed.

(* the next index a follower asks for when it rejects the batch cut at nx *)
Definition rej_nx (F : list entry) (nx : N) : N := if last_idx F <? nx - 1 then last_idx F + 1 else nx - 1.

Lemma reject_one : forall c preL C restL F preF restF nx,
  L = preL ++ C ++ restL -> C <> [] -> F = preF ++ C ++ restF -> log_wf F ->
  (forall i a b, nth_error restL i = Some a -> nth_error restF i = Some b -> eterm a <> eterm b) ->
  last_idx C + 1 < nx -> nx <= last_idx L + 1 ->
  rejR T F (ae_msg e T c L nx) (rej_nx F nx).
Proof.
  intros c preL C restL F preF restF nx HL HC HF Hwf Hconf Hlo Hhi.
  destruct (leader_prev preL C restL (nx - 1) HL HC ltac:(lia) ltac:(lia)) as (a & Ha & Hp).
  replace (nx - 1 + 1) with nx in Hp by lia.
  unfold rejR, ae_msg, rej_nx. rewrite Hp. do 4 eexists. split; [reflexivity|].
  destruct (last_idx F <? nx - 1) eqn:E.
  - left. split; [|reflexivity]. apply get_entries_beyond; [exact Hwf|lia].
  - right. destruct (follower_at F preF C restF (nx - 1) HF Hwf HC ltac:(lia) ltac:(lia)) as (b & tl & Hb & Hg).
    exists b, tl. split; [exact Hg|]. split; [|reflexivity].
    intros Heq. apply (Hconf _ a b Ha Hb). auto.
Qed.

(* cases A and B together: the whole burst is rejected; the leader keeps the smallest answer *)
Lemma round_full_reject : forall next preL C restL preF restF nl nf,
  binv lid fid T L next preL C restL preF restF nl nf ->
  last_idx C < next - 1 ->
  let st := round_full e lid fid (nl, nf) in
  binv lid fid T L (rej_nx (log nf) next) preL C restL preF restF (fst st) (snd st) /\ log (snd st) = log nf.
Proof.
  intros next preL C restL preF restF nl nf B Hgt. cbv zeta. dbinv B.
  assert (HwfL : log_wf (preL ++ C ++ restL)) by (rewrite <- bi_L0; exact HLwf).
  assert (HwfF : log_wf (preF ++ C ++ restF)) by (rewrite <- bi_F0; exact bi_Fwf0).
  destruct (seg_idx preL C restL HwfL bi_C0) as (SL1 & SL2 & SL3 & SL4). rewrite <- bi_L0 in SL3, SL4.
  destruct (seg_idx preF C restF HwfF bi_C0) as (SF1 & SF2 & SF3 & SF4). rewrite <- bi_F0 in SF3, SF4.
  assert (Hf : first_idx L < next) by lia.
  assert (HLne : L <> []) by (rewrite bi_L0; destruct preL; destruct C; try discriminate; congruence).
  destruct (burst_spec nl next bi_role0 bi_term0 bi_log0 bi_conn_l0 bi_next0 Hf bi_hi0 HLne)
    as (ns & Hs & Hch & Hnil & R1 & R2 & R3 & R4 & R5 & R6).
  rewrite round_full_eq. cbv zeta. cbn [fst snd]. rewrite Hs.
  (* every next index of the burst lies in [next, last_idx L + 1] *)
  assert (Hall : Forall (fun y => next <= y /\ y <= last_idx L + 1) (next :: ns)).
  { destruct (N.le_gt_cases next (last_idx L)) as [Hle|Hlt].
    - pose proof (chain_bounds e L next _ HLwf Hf (Hch Hle)) as Hb.
      eapply Forall_impl; [|exact Hb]. cbv beta. intros y Hy. lia.
    - rewrite (Hnil Hlt). constructor; [lia|constructor]. }
  assert (Hrej : Forall2 (rejR T (log nf)) (map (ae_msg e T (commit nl) L) (next :: ns))
                         (map (rej_nx (log nf)) (next :: ns))).
  { clear Hs Hch Hnil. induction Hall as [|y ys Hy Hys IH]; cbn [map]; constructor; [|exact IH].
    eapply reject_one; eauto; lia. }
  destruct (deliver_reject e lid T _ _ nf Hrej bi_fterm0 bi_conn_f0) as (D1 & D2 & D3 & D4).
  rewrite D4.
  destruct bi_match0 as [m0 Hm0]. rewrite <- R5 in Hm0.
  destruct (deliver_resets e fid T (map (rej_nx (log nf)) (next :: ns)) _ m0 _ R1 R2 Hm0 R6)
    as (N1 & N2 & N3 & N4 & N5 & N6 & N7).
  (* the smallest answer is the first one *)
  assert (Hmin : fold_min (map (rej_nx (log nf)) (next :: ns)) (last_idx L + 1) = rej_nx (log nf) next).
  { apply fold_min_exact.
    - apply Forall_forall. intros z Hz. apply in_map_iff in Hz. destruct Hz as (y & <- & Hy).
      rewrite Forall_forall in Hall. specialize (Hall y Hy). unfold rej_nx.
      destruct (last_idx (log nf) <? next - 1) eqn:E1; destruct (last_idx (log nf) <? y - 1) eqn:E2; lia.
    - cbn [map]. left. reflexivity.
    - unfold rej_nx. destruct (last_idx (log nf) <? next - 1) eqn:E1; lia. }
  rewrite Hmin in N7.
  split; [|exact D1].
  assert (Hb : last_idx C < rej_nx (log nf) next /\ rej_nx (log nf) next <= last_idx L + 1).
  { unfold rej_nx. destruct (last_idx (log nf) <? next - 1) eqn:E1; lia. }
  constructor; eauto; try congruence; try lia.
Qed.

(* case A: the follower does not have the previous index at all *)
Lemma round_full_missing : forall next preL C restL preF restF nl nf,
  binv lid fid T L next preL C restL preF restF nl nf ->
  last_idx (log nf) < next - 1 ->
  let st := round_full e lid fid (nl, nf) in
  binv lid fid T L (last_idx (log nf) + 1) preL C restL preF restF (fst st) (snd st) /\ log (snd st) = log nf.
Proof.
  intros next preL C restL preF restF nl nf B Hlt.
  assert (Hgt : last_idx C < next - 1).
  { dbinv B. assert (HwfF : log_wf (preF ++ C ++ restF)) by (rewrite <- bi_F0; exact bi_Fwf0).
    destruct (seg_idx preF C restF HwfF bi_C0) as (_ & _ & SF3 & _). rewrite <- bi_F0 in SF3. lia. }
  pose proof (round_full_reject next preL C restL preF restF nl nf B Hgt) as H.
  unfold rej_nx in H. destruct (last_idx (log nf) <? next - 1) eqn:E; [exact H|lia].
Qed.

(* case B: the follower has the previous index, beyond the common segment: the terms differ.  The
   later batches of the burst are rejected too (with larger next indices): the min keeps next - 1 *)
Lemma round_full_mismatch : forall next preL C restL preF restF nl nf,
  binv lid fid T L next preL C restL preF restF nl nf ->
  last_idx C < next - 1 -> next - 1 <= last_idx (log nf) ->
  let st := round_full e lid fid (nl, nf) in
  binv lid fid T L (next - 1) preL C restL preF restF (fst st) (snd st) /\ log (snd st) = log nf.
Proof.
  intros next preL C restL preF restF nl nf B Hgt Hle.
  pose proof (round_full_reject next preL C restL preF restF nl nf B Hgt) as H.
  unfold rej_nx in H. destruct (last_idx (log nf) <? next - 1) eqn:E; [lia|exact H].
Qed.

(* ---- case C: the previous index is the end of the common segment ---- *)
(* one accepted message of the burst *)
Lemma accept_one : forall c preL C restL preF restF nf,
  L = preL ++ C ++ restL -> C <> [] -> log nf = preF ++ C ++ restF -> log_wf (log nf) ->
  (forall i a b, nth_error restL i = Some a -> nth_error restF i = Some b -> eterm a <> eterm b) ->
  term nf <= T -> smem lid (tconn nf) = true ->
  let s' := on_message e lid (ae_msg e T c L (last_idx C + 1)) nf in
  exists k, (k <= length restL)%nat /\ (restL <> [] -> (1 <= k)%nat) /\
    batch_from e L (last_idx C + 1) = firstn k restL /\
    log (nd s') = preF ++ (C ++ firstn k restL) ++ (match k with O => restF | _ => [] end) /\
    log_wf (log (nd s')) /\ term (nd s') = T /\ tconn (nd s') = tconn nf /\
    sends_to lid (outs s') = [NextIdx T (last_idx (C ++ firstn k restL) + 1) false true].
Proof.
  intros c preL C restL preF restF nf HL HC HF Hwf Hconf Ht Hc. cbv zeta.
  assert (HwfL : log_wf (preL ++ C ++ restL)) by (rewrite <- HL; exact HLwf).
  assert (HwfF : log_wf (preF ++ C ++ restF)) by (rewrite <- HF; exact Hwf).
  destruct (seg_idx preL C restL HwfL HC) as (SL1 & SL2 & SL3 & SL4). rewrite <- HL in SL3, SL4.
  destruct (seg_idx preF C restF HwfF HC) as (SF1 & SF2 & SF3 & SF4). rewrite <- HF in SF3, SF4.
  set (next := last_idx C + 1) in *.
  destruct (snoc_cases C HC) as (C0 & cl & HCeq).
  assert (Hcl : last_idx C = eidx cl) by (rewrite HCeq; apply last_idx_snoc).
  assert (HgL : get_entries L (Some (next - 1)) (Some 1) None = [cl]).
  { replace (next - 1) with (eidx cl) by (subst next; lia).
    rewrite HL, HCeq. rewrite get_entries_seg_last by (rewrite <- HCeq; exact HwfL). reflexivity. }
  assert (Hprev : get_prev L next = Some (next - 1, eterm cl)) by (unfold get_prev; rewrite HgL; reflexivity).
  assert (HgF : get_entries (log nf) (Some (next - 1)) None None = cl :: restF).
  { replace (next - 1) with (eidx cl) by (subst next; lia).
    rewrite HF, HCeq. rewrite get_entries_seg_last by (rewrite <- HCeq; exact HwfF). reflexivity. }
  assert (Hes : exists k, batch_from e L next = firstn k restL /\ (k <= length restL)%nat /\
                          (restL <> [] -> (1 <= k)%nat)).
  { unfold batch_from. destruct (next <=? last_idx L) eqn:En.
    - rewrite get_entries_maxsz.
      assert (H0 : (0 < length restL)%nat) by lia.
      pose proof (get_entries_seg_tail preL C restL 0 None HwfL HC H0) as Hg.
      rewrite <- HL in Hg. replace (last_idx C + 1 + N.of_nat 0) with next in Hg by (subst next; lia).
      rewrite Hg. cbn [skipn].
      destruct (take_size_firstn restL (batch (cf e)) 0) as (k & K1 & K2 & K3). exists k. auto.
    - exists 0%nat. cbn. repeat split; try lia. intros Hne. destruct restL; [congruence|]. cbn [length] in *. lia. }
  destruct Hes as (k & Hes & Hk1 & Hk2).
  pose proof (conflict_matched restL restF k Hconf) as Hmp.
  unfold ae_msg. rewrite Hprev, Hes.
  destruct (follower_accept e lid T c (next - 1) (eterm cl) (firstn k restL) nf cl restF
              Hdyn Ht Hc HgF eq_refl Hmp) as (F1 & F2 & F3 & F4).
  exists k. split; [exact Hk1|]. split; [exact Hk2|]. split; [reflexivity|].
  assert (HF' : log (nd (on_message e lid (AE T c (Some (next - 1, eterm cl)) (firstn k restL)) nf)) =
                preF ++ (C ++ firstn k restL) ++ match k with O => restF | _ => [] end).
  { rewrite F1. destruct k as [|k'].
    - cbn [firstn]. rewrite app_nil_r.
      destruct restF; rewrite app_nil_r; exact HF.
    - destruct restL as [|y ys]; [cbn [length] in *; lia|]. cbn [firstn].
      destruct restF as [|z zs].
      + rewrite HF. rewrite !app_nil_r. rewrite <- app_assoc. reflexivity.
      + assert (Hd : delete_from (log nf) (next - 1 + 1) = preF ++ C).
        { rewrite HF. rewrite app_assoc.
          replace (next - 1 + 1) with (first_idx (z :: zs)).
          - apply delete_from_split; [rewrite <- app_assoc; exact HwfF | discriminate | destruct preF; destruct C; try discriminate; congruence].
          - cbn [consec] in SF2. destruct SF2 as [SF2 _]. cbn [first_idx]. subst next. lia. }
        rewrite Hd. rewrite app_nil_r, <- !app_assoc. reflexivity. }
  assert (HwfF' : log_wf (preF ++ (C ++ firstn k restL) ++ match k with O => restF | _ => [] end)).
  { destruct k as [|k'].
    - cbn [firstn]. rewrite app_nil_r. exact HwfF.
    - rewrite app_nil_r. rewrite app_assoc.
      unfold log_wf in HwfF |- *. rewrite app_assoc in HwfF.
      assert (Hfi : first_idx ((preF ++ C) ++ firstn (Datatypes.S k') restL) = first_idx ((preF ++ C) ++ restF)).
      { destruct (preF ++ C) eqn:Ep; [destruct preF; destruct C; try discriminate; congruence|]. reflexivity. }
      rewrite Hfi. apply consec_app in HwfF. destruct HwfF as [Hpc _].
      apply consec_app. split; [exact Hpc|].
      apply consec_firstn.
      replace (first_idx ((preF ++ C) ++ restF) + N.of_nat (length (preF ++ C))) with (last_idx C + 1).
      * exact SL2.
      * rewrite app_length. rewrite <- app_assoc. lia. }
  split; [exact HF'|]. split; [rewrite HF'; exact HwfF'|]. split; [exact F2|]. split; [exact F3|].
  rewrite F4. f_equal. f_equal.
  destruct (firstn k restL) as [|y ys] eqn:Ef.
  - rewrite app_nil_r. cbn. subst next. lia.
  - rewrite last_idx_app by discriminate. unfold last_idx.
    destruct (last_entry (y :: ys)) as [le|] eqn:El; [reflexivity|].
    exfalso. clear - El. revert y El. induction ys as [|z ys IH]; intros y El; cbn in El; [discriminate|].
    eapply IH; eauto.
Qed.

(* all the messages of the burst, accepted one after the other: each one continues where the
   previous one ended, so nothing conflicts any more after the first *)
Lemma accept_chain : forall c preL preF ns nx, chain e L nx ns ->
  forall C restL restF nf,
  L = preL ++ C ++ restL -> C <> [] -> nx = last_idx C + 1 -> log nf = preF ++ C ++ restF -> log_wf (log nf) ->
  (forall i a b, nth_error restL i = Some a -> nth_error restF i = Some b -> eterm a <> eterm b) ->
  term nf <= T -> smem lid (tconn nf) = true ->
  let r := deliver e lid (map (ae_msg e T c L) ns) nf in
  log (fst r) = preF ++ C ++ (match ns with [] => restF | _ => restL end) /\ term (fst r) <= T /\
  tconn (fst r) = tconn nf /\ log_wf (log (fst r)) /\
  exists nxs, sends_to lid (snd r) = map (fun y => NextIdx T y false true) nxs /\ length nxs = length ns /\
    Forall (fun y => y <= last_idx L + 1) nxs /\ (ns <> [] -> last nxs 0 = last_idx L + 1).
Proof.
  intros c preL preF ns nx Hch. induction Hch as [nx Hend|nx ns Hl Hch IH];
    intros C restL restF nf HL HC Hnx HF Hwf Hconf Ht Hc; cbv zeta.
  - cbn [map]. rewrite deliver_nil. cbn [fst snd]. repeat split; auto.
    exists []. cbn. repeat split; auto. congruence.
  - subst nx. cbn [map]. rewrite deliver_cons. cbn [fst snd].
    assert (HwfL : log_wf (preL ++ C ++ restL)) by (rewrite <- HL; exact HLwf).
    destruct (seg_idx preL C restL HwfL HC) as (SL1 & SL2 & SL3 & SL4). rewrite <- HL in SL3, SL4.
    destruct (accept_one c preL C restL preF restF nf HL HC HF Hwf Hconf Ht Hc)
      as (k & Hk1 & Hk2 & Hb & A1 & A2 & A3 & A4 & A5).
    assert (Hrne : restL <> []) by (intros ->; cbn [length] in *; lia).
    specialize (Hk2 Hrne). destruct k as [|k']; [lia|].
    set (B := firstn (Datatypes.S k') restL) in *.
    assert (HBne : B <> []) by (subst B; destruct restL; [congruence|discriminate]).
    set (n1 := nd (on_message e lid (ae_msg e T c L (last_idx C + 1)) nf)) in *.
    assert (HL' : L = preL ++ (C ++ B) ++ skipn (Datatypes.S k') restL).
    { subst B. rewrite <- app_assoc, firstn_skipn. exact HL. }
    assert (HC' : C ++ B <> []) by (destruct C; [congruence|discriminate]).
    assert (HwfL' : log_wf (preL ++ (C ++ B) ++ skipn (Datatypes.S k') restL)) by (rewrite <- HL'; exact HLwf).
    destruct (seg_idx preL (C ++ B) _ HwfL' HC') as (TL1 & TL2 & TL3 & TL4). rewrite <- HL' in TL3, TL4.
    rewrite Hb in Hch, IH.
    destruct (IH (C ++ B) (skipn (Datatypes.S k') restL) [] n1 HL' HC') as (I1 & I2 & I3 & I4 & nxs & J1 & J2 & J3 & J4).
    { rewrite last_idx_app by exact HBne. reflexivity. }
    { exact A1. }
    { exact A2. }
    { intros i a b _ Hb0. destruct i; discriminate. }
    { lia. }
    { rewrite A4. exact Hc. }
    assert (Hlog : preF ++ (C ++ B) ++ match ns with [] => [] | _ :: _ => skipn (Datatypes.S k') restL end =
                   preF ++ C ++ restL).
    { assert (Hrest : match ns with [] => [] | _ :: _ => skipn (Datatypes.S k') restL end = skipn (Datatypes.S k') restL).
      { destruct ns; [|reflexivity]. apply chain_nil_inv in Hch.
        rewrite last_idx_app in TL3 by exact HBne.
        destruct (skipn (Datatypes.S k') restL); [reflexivity|]. cbn [length] in *. lia. }
      rewrite Hrest. subst B. rewrite <- app_assoc, firstn_skipn. reflexivity. }
    split; [rewrite I1; exact Hlog|]. split; [exact I2|]. split; [congruence|]. split; [exact I4|].
    exists (last_idx (C ++ B) + 1 :: nxs). rewrite sends_to_app, A5, J1. cbn [map app length].
    split; [reflexivity|]. split; [congruence|]. split; [constructor; [lia|exact J3]|].
    intros _. destruct ns as [|z zs].
    + destruct nxs; [|discriminate]. cbn [last].
      apply chain_nil_inv in Hch. rewrite last_idx_app in * by exact HBne. lia.
    + destruct nxs as [|w ws]; [discriminate|].
      change (last (last_idx (C ++ B) + 1 :: w :: ws) 0) with (last (w :: ws) 0). apply J4. discriminate.
Qed.

Lemma round_full_accept : forall preL C restL preF restF nl nf,
  binv lid fid T L (last_idx C + 1) preL C restL preF restF nl nf ->
  let st := round_full e lid fid (nl, nf) in
  binv lid fid T L (last_idx L + 1) preL (C ++ restL) [] preF (match restL with [] => restF | _ => [] end)
       (fst st) (snd st) /\
  exists m1, aget fid (match_idx (fst st)) = Some m1 /\ last_idx L <= m1.
Proof.
  intros preL C restL preF restF nl nf B. cbv zeta. dbinv B.
  assert (HwfL : log_wf (preL ++ C ++ restL)) by (rewrite <- bi_L0; exact HLwf).
  destruct (seg_idx preL C restL HwfL bi_C0) as (SL1 & SL2 & SL3 & SL4). rewrite <- bi_L0 in SL3, SL4.
  assert (Hf : first_idx L < last_idx C + 1) by lia.
  assert (HLne : L <> []) by (rewrite bi_L0; destruct preL; destruct C; try discriminate; congruence).
  destruct (burst_spec nl _ bi_role0 bi_term0 bi_log0 bi_conn_l0 bi_next0 Hf bi_hi0 HLne)
    as (ns & Hs & Hch & Hnil & R1 & R2 & R3 & R4 & R5 & R6).
  rewrite round_full_eq. cbv zeta. cbn [fst snd]. rewrite Hs.
  set (r := deliver e lid (map (ae_msg e T (commit nl) L) (last_idx C + 1 :: ns)) nf).
  (* the follower's side *)
  assert (HF : log (fst r) = preF ++ (C ++ restL) ++ (match restL with [] => restF | _ => [] end) /\
               term (fst r) <= T /\ tconn (fst r) = tconn nf /\ log_wf (log (fst r)) /\
               exists nxs, sends_to lid (snd r) = map (fun y => NextIdx T y false true) nxs /\
                 Forall (fun y => y <= last_idx L + 1) nxs /\ nxs <> [] /\ last nxs 0 = last_idx L + 1).
  { destruct (N.le_gt_cases (last_idx C + 1) (last_idx L)) as [Hle|Hlt].
    - destruct (accept_chain (commit nl) preL preF _ _ (Hch Hle) C restL restF nf bi_L0 bi_C0 eq_refl bi_F0 bi_Fwf0
                  bi_conflict0 bi_fterm0 bi_conn_f0) as (I1 & I2 & I3 & I4 & nxs & J1 & J2 & J3 & J4).
      fold r in I1, I2, I3, I4, J1.
      assert (Hrne : restL <> []) by (intros ->; cbn [length] in *; lia).
      split. { rewrite I1. destruct restL; [congruence|]. rewrite app_nil_r. reflexivity. }
      split; [exact I2|]. split; [exact I3|]. split; [exact I4|].
      exists nxs. split; [exact J1|]. split; [exact J3|]. split; [|apply J4; discriminate].
      destruct nxs; [discriminate|discriminate].
    - subst r. rewrite (Hnil Hlt). cbn [map]. rewrite deliver_one. cbn [fst snd].
      assert (Hr : restL = []) by (destruct restL; [reflexivity|cbn [length] in *; lia]). subst restL.
      destruct (accept_one (commit nl) preL C [] preF restF nf bi_L0 bi_C0 bi_F0 bi_Fwf0 bi_conflict0 bi_fterm0 bi_conn_f0)
        as (k & Hk1 & Hk2 & Hb & A1 & A2 & A3 & A4 & A5).
      assert (k = 0)%nat by (cbn [length] in Hk1; lia). subst k. cbn [firstn] in *.
      split; [exact A1|]. split; [lia|]. split; [exact A4|]. split; [exact A2|].
      eexists [_]. split; [exact A5|]. rewrite app_nil_r. cbn [length] in *.
      split; [constructor; [lia|constructor]|]. split; [discriminate|]. cbn [last]. lia. }
  clearbody r. destruct HF as (F1 & F2 & F3 & F4 & nxs & F5 & F6 & F7 & F8).
  rewrite F5.
  destruct bi_match0 as [m0 Hm0]. rewrite <- R5 in Hm0.
  destruct (deliver_successes e fid T (last_idx L + 1) nxs _ m0 _ R1 R2 Hm0 R6 (or_introl eq_refl) F6)
    as (N1 & N2 & N3 & N4 & N5 & m1 & cur' & N6 & N7 & N8 & N9 & N10).
  specialize (N10 F7). rewrite F8 in N10.
  assert (HC' : C ++ restL <> []) by (destruct C; [congruence|discriminate]).
  assert (HL' : L = preL ++ (C ++ restL) ++ []) by (rewrite app_nil_r; exact bi_L0).
  assert (HwfL' : log_wf (preL ++ (C ++ restL) ++ [])) by (rewrite <- HL'; exact HLwf).
  destruct (seg_idx preL (C ++ restL) [] HwfL' HC') as (TL1 & TL2 & TL3 & TL4). rewrite <- HL' in TL3, TL4.
  cbn [length] in TL3.
  split.
  - constructor; eauto; try congruence; try lia.
    + rewrite N7. f_equal. lia.
    + intros i a b Ha _. destruct i; discriminate.
  - exists m1. split; [exact N6|lia].
Qed.

(* ---- convergence ---- *)
(* rounds still needed: one per step back to the end of the common segment, and one in which the
   whole rest of the leader's log is accepted *)
Definition mu_full (next : N) (C restL : list entry) : N :=
  (next - last_idx C - 1) + (match restL with [] => 0 | _ => 1 end).

Lemma rounds_full_S : forall k st,
  rounds_full (Datatypes.S k) e lid fid st = rounds_full k e lid fid (round_full e lid fid st).
Proof. reflexivity. Qed.

Lemma rounds_full_add : forall a b st,
  rounds_full (a + b) e lid fid st = rounds_full b e lid fid (rounds_full a e lid fid st).
Proof. induction a as [|a IH]; intros b st; [reflexivity|]. cbn [Nat.add]. rewrite !rounds_full_S. apply IH. Qed.

Lemma mu_full_bound : forall next preL C restL preF restF nl nf,
  binv lid fid T L next preL C restL preF restF nl nf -> mu_full next C restL <= last_idx L - last_idx C + 1.
Proof.
  clear Hdyn Hbatch Hnb HLwf Hper Hbud.
  intros next preL C restL preF restF nl nf B. dbinv B. unfold mu_full. destruct restL; lia.
Qed.

Lemma burst_reaches : forall n next preL C restL preF restF nl nf,
  binv lid fid T L next preL C restL preF restF nl nf ->
  (N.to_nat (mu_full next C restL) <= n)%nat ->
  exists k restF', (k <= n)%nat /\
    binv lid fid T L (last_idx L + 1) preL (C ++ restL) [] preF restF'
         (fst (rounds_full k e lid fid (nl, nf))) (snd (rounds_full k e lid fid (nl, nf))).
Proof.
  induction n as [|n IH]; intros next preL C restL preF restF nl nf B Hmu.
  - pose proof B as B0. dbinv B.
    assert (HwfL : log_wf (preL ++ C ++ restL)) by (rewrite <- bi_L0; exact HLwf).
    destruct (seg_idx preL C restL HwfL bi_C0) as (_ & _ & SL3 & _). rewrite <- bi_L0 in SL3.
    unfold mu_full in Hmu.
    assert (Hr : restL = []) by (destruct restL; [reflexivity|lia]).
    subst restL. exists 0%nat, restF. split; [lia|]. cbn [rounds_full fst snd].
    rewrite app_nil_r. replace (last_idx L + 1) with next by (cbn [length] in *; lia). exact B0.
  - pose proof B as B0. dbinv B.
    assert (HwfL : log_wf (preL ++ C ++ restL)) by (rewrite <- bi_L0; exact HLwf).
    assert (HwfF : log_wf (preF ++ C ++ restF)) by (rewrite <- bi_F0; exact bi_Fwf0).
    destruct (seg_idx preL C restL HwfL bi_C0) as (_ & _ & SL3 & _). rewrite <- bi_L0 in SL3.
    destruct (seg_idx preF C restF HwfF bi_C0) as (_ & _ & SF3 & _). rewrite <- bi_F0 in SF3.
    destruct (N.eq_dec (next - 1) (last_idx C)) as [Heq|Hne].
    + assert (Hnext : next = last_idx C + 1) by lia. subst next.
      destruct restL as [|y ys].
      * exists 0%nat, restF. split; [lia|]. cbn [rounds_full fst snd]. rewrite app_nil_r.
        replace (last_idx L + 1) with (last_idx C + 1) by (cbn [length] in *; lia). exact B0.
      * destruct (round_full_accept preL C (y :: ys) preF restF nl nf B0) as [B1 _].
        exists 1%nat, []. split; [lia|]. cbn [rounds_full]. exact B1.
    + destruct (N.lt_ge_cases (last_idx (log nf)) (next - 1)) as [Hlt|Hge].
      * destruct (round_full_missing next preL C restL preF restF nl nf B0 Hlt) as [B1 _].
        rewrite (pair_eta (round_full e lid fid (nl, nf))) in B1. cbn [fst snd] in B1.
        destruct (IH _ _ _ _ _ _ _ _ B1) as (k2 & restF' & Hk2' & B2).
        { unfold mu_full in *. lia. }
        exists (Datatypes.S k2), restF'. split; [lia|]. rewrite rounds_full_S.
        rewrite (pair_eta (round_full e lid fid (nl, nf))). exact B2.
      * assert (Hgt : last_idx C < next - 1) by lia.
        destruct (round_full_mismatch next preL C restL preF restF nl nf B0 Hgt Hge) as [B1 _].
        rewrite (pair_eta (round_full e lid fid (nl, nf))) in B1. cbn [fst snd] in B1.
        destruct (IH _ _ _ _ _ _ _ _ B1) as (k2 & restF' & Hk2' & B2).
        { unfold mu_full in *. lia. }
        exists (Datatypes.S k2), restF'. split; [lia|]. rewrite rounds_full_S.
        rewrite (pair_eta (round_full e lid fid (nl, nf))). exact B2.
Qed.

(* once there, every further round is one accepted heartbeat: nothing changes *)
Lemma burst_stable : forall preL C preF restF nl nf,
  binv lid fid T L (last_idx L + 1) preL C [] preF restF nl nf ->
  let st := round_full e lid fid (nl, nf) in
  binv lid fid T L (last_idx L + 1) preL C [] preF restF (fst st) (snd st) /\
  exists m1, aget fid (match_idx (fst st)) = Some m1 /\ last_idx L <= m1.
Proof.
  intros preL C preF restF nl nf B. cbv zeta.
  pose proof B as B0. dbinv B.
  assert (HwfL : log_wf (preL ++ C ++ [])) by (rewrite <- bi_L0; exact HLwf).
  destruct (seg_idx preL C [] HwfL bi_C0) as (_ & _ & SL3 & _). rewrite <- bi_L0 in SL3.
  cbn [length] in SL3.
  assert (Hll : last_idx L = last_idx C) by lia.
  rewrite Hll in B0.
  destruct (round_full_accept preL C [] preF restF nl nf B0) as [B1 Hm].
  rewrite app_nil_r in B1. split; [exact B1|exact Hm].
Qed.

Lemma burst_stable_rounds : forall j preL C preF restF nl nf,
  binv lid fid T L (last_idx L + 1) preL C [] preF restF nl nf ->
  binv lid fid T L (last_idx L + 1) preL C [] preF restF
       (fst (rounds_full j e lid fid (nl, nf))) (snd (rounds_full j e lid fid (nl, nf))).
Proof.
  induction j as [|j IH]; intros preL C preF restF nl nf B; [exact B|].
  rewrite rounds_full_S. destruct (burst_stable preL C preF restF nl nf B) as [B1 _].
  rewrite (pair_eta (round_full e lid fid (nl, nf))). apply IH. exact B1.
Qed.

(* C05_burst_converges *)
Theorem burst_converges : forall next preL C restL preF restF nl nf,
  binv lid fid T L next preL C restL preF restF nl nf ->
  exists k restF', (k <= N.to_nat (mu_full next C restL))%nat /\
    forall j, (k <= j)%nat ->
      let st := rounds_full j e lid fid (nl, nf) in
      log (fst st) = L /\ log (snd st) = preF ++ (C ++ restL) ++ restF' /\
      aget fid (next_idx (fst st)) = Some (last_idx L + 1) /\
      (* one more round: the answer was a success for the whole log *)
      exists m1, aget fid (match_idx (fst (round_full e lid fid st))) = Some m1 /\ last_idx L <= m1.
Proof.
  intros next preL C restL preF restF nl nf B.
  destruct (burst_reaches (N.to_nat (mu_full next C restL)) next preL C restL preF restF nl nf B (le_n _))
    as (k & restF' & Hk & Bk).
  exists k, restF'. split; [exact Hk|]. intros j Hj. cbv zeta.
  replace j with (k + (j - k))%nat by lia. rewrite rounds_full_add.
  rewrite (pair_eta (rounds_full k e lid fid (nl, nf))).
  pose proof (burst_stable_rounds (j - k) _ _ _ _ _ _ Bk) as Bj.
  set (st := rounds_full (j - k) e lid fid (fst (rounds_full k e lid fid (nl, nf)), snd (rounds_full k e lid fid (nl, nf)))) in *.
  pose proof Bj as Bj0. dbinv Bj.
  repeat split; auto.
  destruct (burst_stable _ _ _ _ _ _ Bj0) as [_ Hm].
  rewrite <- (pair_eta st) in Hm. exact Hm.
Qed.

End Burst.

(* ================= the rule before commit 472b088 ================= *)
(* The NextIdx branch of on_message as it was BEFORE the fix: a reset answer OVERWRITES the next
   index (aset from next) instead of keeping the minimum of it and the current value.  Everything
   else is the branch of Node.v, copied.  Other messages go to on_message. *)
Definition old_leader_reply (e : env) (from : nid) (m : msg) (n : node) : S :=
  let s := start_S e n in
  match m with
  | NextIdx t next reset success =>
    if (role (nd s) =? LEADER) && (t =? term (nd s)) then
      let s := if reset then
                 upd (fun n => n <| next_idx := aset from next (next_idx n) |>) s   (* pre-472b088 *)
               else s in
      let s := if success then
                 match aget from (match_idx (nd s)) with
                 | None => raise EXC_KEY s
                 | Some m0 =>
                   if m0 <? next - 1 then
                     upd (fun n => n <| match_idx := aset from (next - 1) (match_idx n) |>
                                      <| next_idx := aset from next (next_idx n) |>) s
                   else s
                 end
               else s in
      if ok s then upd (fun n => n <| last_resp := aset from (tnow s) (last_resp n) |>) s else s
    else s
  | _ => on_message e from m n
  end.

Definition round_full_old := round_full_with old_leader_reply.

Fixpoint rounds_full_old (k : nat) (e : env) (lid fid : nid) (st : node * node) : node * node :=
  match k with O => st | Datatypes.S k' => rounds_full_old k' e lid fid (round_full_old e lid fid st) end.

Lemma rounds_full_old_shift : forall e lid fid j st,
  rounds_full_old (Datatypes.S j) e lid fid st = round_full_old e lid fid (rounds_full_old j e lid fid st).
Proof.
  intros e lid fid. induction j as [|j IHj]; intros st; [reflexivity|].
  change (rounds_full_old (Datatypes.S (Datatypes.S j)) e lid fid st)
    with (rounds_full_old (Datatypes.S j) e lid fid (round_full_old e lid fid st)).
  rewrite IHj. reflexivity.
Qed.

(* a state that one round maps to a fixed point of the round stays there *)
Lemma rounds_full_old_fixed : forall e lid fid st,
  round_full_old e lid fid (round_full_old e lid fid st) = round_full_old e lid fid st ->
  forall k, rounds_full_old (Datatypes.S k) e lid fid st = round_full_old e lid fid st.
Proof.
  intros e lid fid st Hfix. induction k as [|k IH]; [reflexivity|].
  rewrite rounds_full_old_shift, IH. exact Hfix.
Qed.

(* ---- concrete data: batches of two entries; leader (term 3) log terms [0;1;1;3;3;3;3;3;3],
   follower [0;1;1;2]: its last entry (index 4) has another term, the leader is three batches
   ahead of it ---- *)
Definition cb : conf := mkConf 10 40 20 100 2 4 true false true 2 1000 10 5 false true.
Definition eb : env := mk_env cb 100 0 30 [] 9.
Definition bcmd (k : N) : cmd := mkCmd 0 k 0 1 10.
Definition g1 := mkEntry (noop_cmd 5) 1 0.
Definition g2 := mkEntry (noop_cmd 5) 2 1.
Definition g3 := mkEntry (bcmd 7) 3 1.
Definition k4 := mkEntry (noop_cmd 5) 4 3.
Definition k5 := mkEntry (bcmd 8) 5 3.
Definition k6 := mkEntry (bcmd 9) 6 3.
Definition k7 := mkEntry (bcmd 10) 7 3.
Definition k8 := mkEntry (bcmd 11) 8 3.
Definition k9 := mkEntry (bcmd 12) 9 3.
Definition h4 := mkEntry (bcmd 13) 4 2.
Definition Lb : list entry := [g1; g2; g3; k4; k5; k6; k7; k8; k9].
Definition Fb : list entry := [g1; g2; g3; h4].
Definition nlb : node :=
  (init_node eb (Some 1) [2] 0) <| role := LEADER |> <| term := 3 |> <| log := Lb |> <| tconn := [2] |>
    <| connected := [2] |> <| next_idx := [(2, 5)] |> <| match_idx := [(2, 0)] |>.
Definition nfb : node := (init_node eb (Some 2) [1] 0) <| term := 2 |> <| log := Fb |> <| tconn := [1] |>
    <| connected := [1] |>.

(* the burst of this leader IS what send_ae does (fid is its only peer), and it is three batches *)
Example ex_burst_is_send_ae :
  send_ae eb (start_S eb nlb) = burst eb 2 nlb /\
  sends_to 2 (outs (burst eb 2 nlb)) =
    [AE 3 1 (Some (4, 3)) [k5; k6]; AE 3 1 (Some (6, 3)) [k7; k8]; AE 3 1 (Some (8, 3)) [k9]] /\
  sends_to 1 (snd (deliver eb 1 (sends_to 2 (outs (burst eb 2 nlb))) nfb)) =
    [NextIdx 3 4 true false; NextIdx 3 5 true false; NextIdx 3 5 true false].
Proof. split; [apply send_ae_single; reflexivity|]. vm_compute. split; reflexivity. Qed.

(* With the old rule the full round gives back the next index it started from (5 -> 4 -> 5 -> 5), the
   follower's log does not change, and the pair of nodes after one round is a fixed point of the
   round: the exchange repeats for ever.  With the model's rule the same round steps back to 4 and the
   next round brings the follower's log to the leader's. *)
Example burst_old_rule_livelock :
  aget 2 (next_idx nlb) = Some 5 /\
  aget 2 (next_idx (fst (round_full_old eb 1 2 (nlb, nfb)))) = Some 5 /\
  log (snd (round_full_old eb 1 2 (nlb, nfb))) = Fb /\
  round_full_old eb 1 2 (round_full_old eb 1 2 (nlb, nfb)) = round_full_old eb 1 2 (nlb, nfb) /\
  aget 2 (next_idx (fst (round_full eb 1 2 (nlb, nfb)))) = Some 4 /\
  log (snd (rounds_full 2 eb 1 2 (nlb, nfb))) = Lb /\
  aget 2 (next_idx (fst (rounds_full 2 eb 1 2 (nlb, nfb)))) = Some 10 /\
  aget 2 (match_idx (fst (rounds_full 2 eb 1 2 (nlb, nfb)))) = Some 9.
Proof. vm_compute. repeat split; reflexivity. Qed.

(* hence, for every number of rounds *)
Theorem burst_old_rule_livelock_forever : forall k,
  aget 2 (next_idx (fst (rounds_full_old k eb 1 2 (nlb, nfb)))) = Some 5 /\
  log (snd (rounds_full_old k eb 1 2 (nlb, nfb))) = Fb.
Proof.
  destruct burst_old_rule_livelock as (H0 & H1 & H2 & Hfix & _).
  intros [|k]; [split; [exact H0|reflexivity]|].
  rewrite (rounds_full_old_fixed eb 1 2 (nlb, nfb) Hfix k). split; [exact H1|exact H2].
Qed.

(* ---- the hypotheses of burst_converges hold of this state, whose follower conflicts ---- *)
Example ex_burst_hyps :
  dyn (cf eb) = false /\ 1 <= batch (cf eb) /\ no_big eb Lb /\ log_wf Lb /\
  (0 <= period (cf eb))%Z /\ N.of_nat (length Lb) <= budget eb /\
  binv 1 2 3 Lb 5 [g1] [g2; g3] [k4; k5; k6; k7; k8; k9] [g1] [h4] nlb nfb /\
  mu_full 5 [g2; g3] [k4; k5; k6; k7; k8; k9] = 2 /\
  last_idx (log nfb) = 4 /\ eterm h4 <> eterm k4.
Proof.
  split; [reflexivity|]. split; [vm_compute; discriminate|].
  split.
  { intros en Hin. cbn in Hin.
    destruct Hin as [<-|[<-|[<-|[<-|[<-|[<-|[<-|[<-|[<-|[]]]]]]]]]]; vm_compute; reflexivity. }
  split; [vm_compute; repeat split; reflexivity|].
  split; [vm_compute; discriminate|]. split; [vm_compute; discriminate|].
  split; [|split; [reflexivity|split; [reflexivity|vm_compute; discriminate]]].
  constructor; try reflexivity; try (exists 0; reflexivity); try discriminate;
    try (vm_compute; discriminate); try (vm_compute; repeat split; reflexivity).
  intros i a b Ha Hb. destruct i as [|i]; cbn in Ha, Hb.
  - inversion Ha; inversion Hb; subst. vm_compute. discriminate.
  - destruct i; discriminate.
Qed.

(* the run: 5 -> 4 (the whole burst rejected, the minimum kept) -> 10 (everything accepted) *)
Example ex_burst_run :
  map (fun k => aget 2 (next_idx (fst (rounds_full k eb 1 2 (nlb, nfb))))) [0; 1; 2; 3]%nat =
    [Some 5; Some 4; Some 10; Some 10] /\
  log (snd (rounds_full 1 eb 1 2 (nlb, nfb))) = Fb /\
  log (snd (rounds_full 2 eb 1 2 (nlb, nfb))) = Lb.
Proof. vm_compute. repeat split; reflexivity. Qed.
