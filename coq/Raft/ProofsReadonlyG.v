(* C18: partial non-interference: the leader phase and an election that is not won alone commute with
   erasing a read-only node. *)
From Coq Require Import ZArith NArith List Bool Lia ZifyBool ZifyN.
From RecordUpdate Require Import RecordSet.
From PSO Require Import Raft.Types Raft.Node Raft.Net.
From PSO Require Import Raft.ProofsReadonlyFrames Raft.ProofsReadonlyA Raft.ProofsReadonlyB Raft.ProofsReadonlyC
  Raft.ProofsReadonlyD Raft.ProofsReadonlyE Raft.ProofsFallbackA Raft.ProofsFallbackB Raft.ProofsReadonlyF.
Import ListNotations.
Import RecordSetNotations.
Open Scope N_scope.

(* ---- what does hold: the leader phase and an election that is not won alone commute with erasing x ---- *)
Lemma erase_view : forall x n, ~ In x (others n) -> same_votersview n (erase_ro x n).
Proof.
  intros x n Hx. unfold erase_ro; cbn. repeat split; auto; intros y Hy; symmetry; apply aget_adel_other; intros ->; contradiction.
Qed.

Lemma filter_app_one : forall x os o, filter (not_to x) (os ++ [o]) = filter (not_to x) os ++ (if not_to x o then [o] else []).
Proof. intros; rewrite filter_app; reflexivity. Qed.

Lemma erase_tick_leader : forall e s x,
  ~ In x (others (nd s)) -> erase_S x (tick_leader e s) = tick_leader e (erase_S x s).
Proof.
  intros e s x Hx. rewrite !tick_leader_eq.
  change (role (nd (erase_S x s))) with (role (nd s)).
  destruct (role (nd s) =? LEADER); [|reflexivity].
  unfold commit_phase.
  change (log (nd (erase_S x s))) with (log (nd s)). change (commit (nd (erase_S x s))) with (commit (nd s)).
  pose proof (commit_loop_ext (Datatypes.S (N.to_nat (last_idx (log (nd s)) - commit (nd s)))) (commit (nd s)) (commit (nd s))
                s (erase_S x s) (erase_view x (nd s) Hx)) as (E1 & E2).
  destruct (commit_loop _ _ _ s) as [s1 nc]. destruct (commit_loop _ _ _ (erase_S x s)) as [s1' nc'].
  cbn [fst snd] in E1, E2. subst nc'.
  destruct E2 as [(-> & ->) | (-> & ->)]; [|reflexivity].
  change (ok (erase_S x s)) with (ok s). destruct (ok s); [|reflexivity].
  assert (erase_S x (store_commit nc s) = store_commit nc (erase_S x s)) as ES.
  { unfold store_commit. change (commit (nd (erase_S x s))) with (commit (nd s)). destruct (_ =? nc); reflexivity. }
  rewrite <- ES.
  assert (~ In x (others (nd (store_commit nc s)))) as Hx'.
  { unfold store_commit. destruct (_ =? nc); exact Hx. }
  revert Hx'. generalize (store_commit nc s). clear. intros a Hx.
  pose proof (erase_view x (nd a) Hx) as Hv.
  destruct (fallback_phase_spec e a) as [(A1 & ->) | [(A1 & A2 & ->) | (A1 & A2 & ->)]];
  destruct (fallback_phase_spec e (erase_S x a)) as [(B1 & ->) | [(B1 & B2 & ->) | (B1 & B2 & ->)]];
    change (nd (erase_S x a)) with (erase_ro x (nd a)) in *; change (tnow (erase_S x a)) with (tnow a) in *;
    rewrite (resp_missing_ext _ _ Hv) in A1; try congruence;
    try (rewrite (fresh_count_ext _ _ _ Hv), (majority_others _ _ _ (proj1 Hv)) in A2; congruence);
    try reflexivity.
  unfold set_role; cbn. destruct (role (nd a) =? FOLLOWER); [reflexivity|].
  unfold erase_S, emit, upd; cbn. rewrite filter_app_one. reflexivity.
Qed.

(* C18_noninterference_partial: the leader phase (commit advance, fallback, step-down) of a voter
   commutes with erasing a read-only node x: same node state modulo x's slots, same outputs *)
Theorem C18_noninterference_partial_thm : forall e s x,
  ~ In x (others (nd s)) -> erase_S x (tick_leader e s) = tick_leader e (erase_S x s).
Proof. exact erase_tick_leader. Qed.
