(* Tier C4, part 9: read-only nodes.  They are not part of the abstract cluster: every step of a
   read-only node (self = None, role = FOLLOWER for ever) is a stutter of L0.  What has to be shown
   is L1 hygiene [Hr] (small queued commands, replay_idx <= applied <= commit, also across log
   compaction and the install of a snapshot) and that the node only ever sends NextIdx / ApplyCmd /
   ApplyResp messages (never a vote request, a vote, or append_entries). *)
From Coq Require Import ZArith NArith List Bool Lia ZifyBool Arith PeanoNat.
From RecordUpdate Require Import RecordSet.
From PSO Require Import Raft.Types Raft.Node Raft.Net Raft.ProofsCommitBase Raft.ProofsSnapshotBase.
From PSO Require Import Raft.ProofsElectionBase Raft.RefineAbs Raft.RefineSpecA Raft.RefineTickA
  Raft.RefineTickB Raft.RefineMsgB.
From PSO Require Import Raft.Refine3Abs Raft.Refine3SpecA Raft.Refine3Sim Raft.Refine4TickB Raft.Refine4MsgC.
From PSO Require Raft.ProofsElectionFrame2.
Import ListNotations.
Import RecordSetNotations.
Open Scope N_scope.

(* the fields the hygiene of a read-only node reads *)
Definition rq (x : node) := (self x, role x, queue x, replay_idx x, applied x, commit x).

Lemma rq_eq x y : rq x = rq y ->
  self x = self y /\ role x = role y /\ queue x = queue y /\ replay_idx x = replay_idx y /\
  applied x = applied y /\ commit x = commit y.
Proof. unfold rq. intros H. repeat split; congruence. Qed.

Lemma fv_rq x y : fv x = fv y -> rq x = rq y.
Proof. intros H. fvinj H. unfold rq. congruence. Qed.

Lemma try_compact_rq e s : rq (nd (try_compact e s)) = rq (nd s) /\ outs (try_compact e s) = outs s.
Proof.
  unfold try_compact. cbv zeta.
  destruct (pid (sr (nd s)) =? 0); destruct (pid (sr (nd s)) =? 1); cbn [negb];
    try (split; reflexivity);
    match goal with |- context [if ?b then _ else _] => destruct b end; try (split; reflexivity);
    match goal with |- context [match ?l with [] => _ | _ :: _ => _ end] => destruct l as [|e0 [|e1 r]] end;
    try (split; reflexivity);
    match goal with |- context [if ?b then _ else _] => destruct b end; split; reflexivity.
Qed.

Lemma load_dump_refuse_rq e s :
  load_dump_ok s = false -> rq (nd (load_dump e true s)) = rq (nd s) /\ outs (load_dump e true s) = outs s.
Proof.
  intros Hok. unfold load_dump. unfold load_dump_ok in Hok.
  destruct (stored (sr (nd s))) as [[sn|k]|]; try (split; reflexivity).
  cbn [andb]. destruct (eidx (s_e1 sn) <=? applied (nd s)); [split; reflexivity|].
  cbn [negb andb] in Hok. destruct (self_ver (nd s) <? s_ver sn) eqn:E; [split; reflexivity|]. lia.
Qed.

Lemma load_dump_install_rq e s sn :
  stored (sr (nd s)) = Some (Good sn) -> load_dump_ok s = true -> dyn (cf e) = false ->
  let s' := load_dump e true s in
  self (nd s') = self (nd s) /\ role (nd s') = role (nd s) /\ term (nd s') = term (nd s) /\
  queue (nd s') = queue (nd s) /\ commit (nd s') = commit (nd s) /\
  applied (nd s') = eidx (s_e1 sn) /\ replay_idx (nd s') <= replay_idx (nd s) /\ outs s' = outs s.
Proof.
  intros Hst Hok Hd. cbv zeta. rewrite (load_dump_eq e s sn Hst Hok Hd). cbv zeta.
  destruct (kept_of (log (nd s)) (s_e0 sn) (s_e1 sn));
    match goal with |- context [if negb ?b then _ else _] => destruct b end; cbn [negb];
    repeat split; try reflexivity; cbn; lia.
Qed.

Section RO.
Variable c : conf.
Hypothesis Hdyn : dyn c = false.
Variable e : env.
Hypothesis Hc : cf e = c.

Notation Hr := (Hr c).

Definition ro_msg (m : msg) : Prop :=
  match m with
  | NextIdx _ _ _ _ | ApplyResp _ _ _ _ => True
  | ApplyCmd cm _ => small_cmd c cm
  | _ => False
  end.

Definition ro_out (o : out) : Prop := match o with Send _ m => ro_msg m | _ => True end.

Record ROS (S : Node.S) : Prop := {
  RO_h : Hr (nd S);
  RO_self : self (nd S) = None;
  RO_role : role (nd S) = FOLLOWER;
  RO_o : Forall ro_out (outs S)
}.

Lemma nosend_ro o : nosend o -> ro_out o.
Proof. destruct o; cbn; auto. intros []. Qed.

Lemma ROS_keep (S S' : Node.S) :
  ROS S -> Hr (nd S') -> self (nd S') = self (nd S) -> role (nd S') = role (nd S) ->
  grow ro_out S S' -> ROS S'.
Proof.
  intros [A1 A2 A3 A4] HH Hs Hrl (new & O & G). constructor; auto; try congruence.
  rewrite O. apply Forall_app. auto.
Qed.

Lemma ROS_rq (S S' : Node.S) : ROS S -> rq (nd S') = rq (nd S) -> grow nosend S S' -> ROS S'.
Proof.
  intros R0 F G. destruct (rq_eq _ _ F) as (E1 & E2 & E3 & E4 & E5 & E6).
  apply (ROS_keep S S'); auto.
  - destruct (RO_h _ R0) as [B1 B2 B3]. constructor; rewrite ?E3, ?E4, ?E5, ?E6; auto.
  - eapply grow_mono; [|exact G]. apply nosend_ro.
Qed.

Lemma ROS_quiet (S S' : Node.S) : ROS S -> fv (nd S') = fv (nd S) -> grow nosend S S' -> ROS S'.
Proof. intros R0 F G. apply (ROS_rq S S'); auto. apply fv_rq. exact F. Qed.

Lemma ROS_same (S S' : Node.S) : ROS S -> nd S' = nd S -> outs S' = outs S -> ROS S'.
Proof. intros R0 E1 E2. apply (ROS_quiet S S'); auto; [rewrite E1; reflexivity|apply grow_eq; auto]. Qed.

Lemma ROS_app (S S' : Node.S) : ROS S -> app_rel S S' -> applied (nd S') <= commit (nd S) -> ROS S'.
Proof.
  intros R0 (A & B & G) Hac. destruct (fvA_eq _ _ A) as (E1 & E2 & E3 & E4 & E5 & E6 & E7 & E8).
  destruct (RefineSim.rv_eq _ _ E3) as (Er & _ & _ & _ & _ & Ec & _).
  apply (ROS_keep S S'); auto.
  - destruct (RO_h _ R0) as [B1 B2 B3]. constructor; rewrite ?E6, ?E7, ?Ec; auto; lia.
  - eapply grow_mono; [|exact G]. apply nosend_ro.
Qed.

Definition rosf (f : Node.S -> Node.S) : Prop := forall S, ROS S -> ROS (f S).

Lemma rosf_andthen f g : rosf f -> rosf g -> rosf (f ;; g).
Proof. intros Hf Hg S R0. rewrite andthen_eq. destruct (ok (f S)); auto. Qed.

(* ---- the phases of a tick ---- *)
Lemma ro_tick_load S : ProofsElectionFrame2.tickp e (nd S) -> ROS S -> ROS (tick_load e S).
Proof.
  intros Tp R0. unfold tick_load.
  destruct (need_load (nd S) && file_dump (cf e)) eqn:E.
  - unfold load_dump. rewrite (Tp E). apply (ROS_quiet S); [exact R0|reflexivity|apply grow_upd].
  - apply (ROS_quiet S); [exact R0|reflexivity|apply grow_upd].
Qed.

Lemma ro_tick_timer : rosf (tick_timer e).
Proof.
  intros S R0. unfold tick_timer. destruct (_ <? _)%Z; [|exact R0].
  apply (ROS_quiet S); [exact R0|reflexivity|apply grow_upd].
Qed.

Lemma ro_tick_ready : rosf tick_ready.
Proof.
  intros S R0. unfold tick_ready. destruct (_ && _); [|exact R0].
  apply (ROS_quiet S); [exact R0|reflexivity|apply grow_upd].
Qed.

Lemma ro_tick_election : rosf (tick_election e).
Proof. intros S R0. unfold tick_election. rewrite (RO_self _ R0). exact R0. Qed.

Lemma ro_tick_leader : rosf (tick_leader e).
Proof. intros S R0. unfold tick_leader. rewrite (RO_role _ R0). exact R0. Qed.

Lemma ro_tick_send need : rosf (tick_send e need).
Proof. intros S R0. unfold tick_send. rewrite (RO_role _ R0). exact R0. Qed.

Lemma ro_check_one cm cbk S : ROS S -> small_cmd c cm -> ROS (check_one e cm cbk S).
Proof.
  intros R0 Hs. unfold check_one. rewrite (RO_role _ R0). cbn [N.eqb FOLLOWER LEADER].
  destruct (leader (nd S)) as [l|].
  - destruct cbk as [|id|rn rid].
    + apply (ROS_keep S); auto; rewrite ?nd_send; auto; [apply (RO_h _ R0)|]. apply grow_send. exact Hs.
    + apply (ROS_keep S); auto; rewrite ?nd_send, ?nd_upd; auto.
      * destruct (RO_h _ R0) as [B1 B2 B3]. constructor; cbn; auto.
      * eapply grow_trans; [apply grow_upd|]. apply grow_send. exact Hs.
    + apply (ROS_keep S); auto; rewrite ?nd_send; auto; [apply (RO_h _ R0)|]. apply grow_send. exact I.
  - apply (ROS_keep S); auto; rewrite ?nd_call_err; auto; [apply (RO_h _ R0)|].
    destruct cbk as [|id|rn rid]; cbn [call_err]; [apply grow_refl|apply grow_emit; exact I|apply grow_send; exact I].
Qed.

Lemma ro_check_loop fuel start : rosf (check_loop fuel e start).
Proof.
  induction fuel as [|f IH]; intros S R0; cbn [check_loop]; [exact R0|].
  destruct (_ <? _)%Z; [|exact R0].
  assert (Hgo : ROS (match queue (nd S) with
                     | [] => S
                     | (cm, cbk) :: rest =>
                         let s0 := upd (fun n0 => n0 <| queue := rest |>) S in
                         let s0 := check_one e cm cbk s0 in
                         if ok s0 then check_loop f e start s0 else s0
                     end)).
  { destruct (queue (nd S)) as [|[cm cbk] rest] eqn:Eq; [exact R0|]. cbv zeta.
    pose proof (RO_h _ R0) as HH.
    assert (Hq : Forall (fun q => small_cmd c (fst q)) ((cm, cbk) :: rest)) by (rewrite <- Eq; apply (Hr_queue _ _ HH)).
    pose proof (Forall_inv Hq) as Hcm. pose proof (Forall_inv_tail Hq) as Hrest. cbn [fst] in Hcm.
    set (s0 := upd (fun n0 => n0 <| queue := rest |>) S).
    assert (R1 : ROS s0).
    { apply (ROS_keep S s0); auto; [|apply grow_upd].
      destruct HH as [B1 B2 B3]. constructor; unfold s0; rewrite ?nd_upd; cbn; auto. }
    pose proof (ro_check_one cm cbk s0 R1 Hcm) as R2.
    destruct (ok (check_one e cm cbk s0)); auto. }
  destruct (leader (nd S)); [exact Hgo|].
  destruct (wait_leader (cf e)); [exact R0|exact Hgo].
Qed.

Lemma ro_check_commands : rosf (check_commands e).
Proof. intros S R0. unfold check_commands. apply ro_check_loop. exact R0. Qed.

Lemma ro_try_compact : rosf (try_compact e).
Proof.
  intros S R0. destruct (try_compact_rq e S) as [F O].
  apply (ROS_rq S); [exact R0|exact F|apply grow_eq; exact O].
Qed.

Lemma ro_tick_tail :
  rosf (fun s => let (s, need) := apply_entries e s in
                 if ok s then (tick_send e need ;; tick_ready ;; check_commands e ;; try_compact e) s else s).
Proof.
  intros S R0.
  pose proof (apply_entries_spec e S (Hr_rinv _ _ (RO_h _ R0))) as A.
  pose proof (apply_entries_bound e S (Hr_ac _ _ (RO_h _ R0))) as Bd.
  destruct (apply_entries e S) as [S1 need]. cbn [fst] in A, Bd.
  assert (R1 : ROS S1) by (eapply ROS_app; eauto).
  destruct (ok S1); [|exact R1].
  assert (T : rosf (tick_send e need ;; tick_ready ;; check_commands e ;; try_compact e)).
  { apply rosf_andthen; [apply ro_tick_send|].
    apply rosf_andthen; [apply ro_tick_ready|].
    apply rosf_andthen; [apply ro_check_commands|].
    apply ro_try_compact. }
  exact (T S1 R1).
Qed.

Lemma ro_on_tick x : ProofsElectionFrame2.tickp e x -> ROS (start_S e x) -> ROS (on_tick e x).
Proof.
  intros Tp R00. unfold on_tick.
  pose proof (ro_tick_load (start_S e x) Tp R00) as R0.
  rewrite andthen_eq. destruct (ok (tick_load e (start_S e x))); [|exact R0].
  assert (T : rosf (tick_timer e ;; tick_election e ;; tick_leader e ;;
     (fun s => let (s, need) := apply_entries e s in
               if ok s then (tick_send e need ;; tick_ready ;; check_commands e ;; try_compact e) s else s))).
  { apply rosf_andthen; [apply ro_tick_timer|].
    apply rosf_andthen; [apply ro_tick_election|].
    apply rosf_andthen; [apply ro_tick_leader|].
    apply ro_tick_tail. }
  exact (T _ R0).
Qed.

(* ---- messages ---- *)
(* what a read-only node needs to know about a message it receives *)
Definition ro_in (m : msg) : Prop :=
  match m with
  | AESnap _ cm (SData bl _ _ _ last) => last = true -> forall sn, bl = Good sn -> eidx (s_e1 sn) <= cm
  | ApplyCmd cm _ => small_cmd c cm
  | _ => True
  end.

Lemma ro_submit cm cbk S : ROS S -> small_cmd c cm -> ROS (submit e cm cbk S).
Proof.
  intros R0 Hs. unfold submit. destruct (_ <? _).
  - apply (ROS_keep S); auto; rewrite ?nd_call_err; auto; [apply (RO_h _ R0)|].
    destruct cbk as [|id|rn rid]; cbn [call_err]; [apply grow_refl|apply grow_emit; exact I|apply grow_send; exact I].
  - apply (ROS_keep S); auto; [|apply grow_upd].
    destruct (RO_h _ R0) as [B1 B2 B3]. constructor; rewrite ?nd_upd; cbn; auto.
    apply Forall_app. split; auto.
Qed.

Lemma fail_reply_ro from o : is_fail_reply from o -> ro_out o.
Proof. intros [H|(t & nx & r & ->)]; [apply nosend_ro; auto|exact I]. Qed.

Lemma ro_on_append_entries a m t cm x :
  ROS (start_S e x) -> ro_in m ->
  (m = AE t cm (match m with AE _ _ p _ => p | _ => None end) (match m with AE _ _ _ es => es | _ => [] end) \/
   (exists p, m = AESnap t cm p) \/ (exists prev lab off len en, m = AEPiece t cm prev lab off len en)) ->
  ROS (on_append_entries e a m t cm (start_S e x)).
Proof.
  intros R0 Hin Hm. set (S0 := start_S e x) in *.
  rewrite on_append_entries_eq.
  destruct (t <? term (nd S0)); [exact R0|].
  destruct (ae_pre_spec e a t cm S0) as [F1 G1].
  set (S1 := ae_pre e a t cm S0) in *. clearbody S1.
  assert (Hd : dyn (cf e) = false) by (rewrite Hc; exact Hdyn).
  assert (R1 : ROS S1).
  { fvinj_n F1 P. apply (ROS_keep S0 S1); auto.
    - destruct (RO_h _ R0) as [B1 B2 B3]. constructor; rewrite ?Pqueue, ?Preplay, ?Papplied, ?Pcommit; auto.
    - rewrite Prole. symmetry. apply (RO_role _ R0).
    - eapply grow_mono; [|exact G1]. apply nosend_ro. }
  clear F1 G1 R0. clearbody S0.
  assert (Hfail : forall S', nd S' = nd S1 -> grow (is_fail_reply a) S1 S' -> ROS S').
  { intros S' En G. apply (ROS_keep S1 S'); auto; try congruence.
    - rewrite En. apply (RO_h _ R1).
    - eapply grow_mono; [|exact G]. apply fail_reply_ro. }
  assert (Hreg : forall S1 prev es, ROS S1 -> ROS (ae_regular e a cm prev es S1)).
  { clear S1 R1 Hfail. intros S1 prev es R1.
    assert (Hfail : forall S', nd S' = nd S1 -> grow (is_fail_reply a) S1 S' -> ROS S').
    { intros S' En G. apply (ROS_keep S1 S'); auto; try congruence.
      - rewrite En. apply (RO_h _ R1).
      - eapply grow_mono; [|exact G]. apply fail_reply_ro. }
    destruct prev as [[pidx pterm]|].
    2:{ destruct (ae_regular_fail_none e a cm es S1) as [En G]. apply Hfail; auto. }
    destruct (get_entries (log (nd S1)) (Some pidx) None None) as [|p0 ptail] eqn:Ege.
    { destruct (ae_regular_fail_empty e a cm pidx pterm es S1 Ege) as [En G]. apply Hfail; auto. }
    destruct (N.eq_dec (eterm p0) pterm) as [Hpt|Hpt].
    2:{ destruct (ae_regular_fail_term e a cm pidx pterm es S1 p0 ptail Ege Hpt) as [En G]. apply Hfail; auto. }
    destruct (ae_regular_succ e Hd a cm pidx pterm es S1 p0 ptail Ege Hpt) as [F2 G2]. cbv zeta in F2, G2.
    set (S2 := ae_regular e a cm (Some (pidx, pterm)) es S1) in *. clearbody S2.
    fvinj_n F2 Q.
    apply (ROS_keep S1 S2); auto.
    + destruct (RO_h _ R1) as [B1 B2 B3]. constructor.
      * rewrite Qqueue. exact B1.
      * rewrite Qreplay, Qapplied. destruct (truncating _ _); lia.
      * rewrite Qapplied, Qcommit. destruct (commit (nd S1) <? cm); lia.
    + eapply grow_mono; [|exact G2]. intros o ->. exact I. }
  destruct Hm as [Hm|[[p ->]|(prev & lab & off & len & en & ->)]].
  - destruct m as [| |t' cm' prev es| | | | |]; try discriminate. injection Hm as -> ->. cbn [ae_body_of].
    apply Hreg. exact R1.
  - (* snapshot pieces *)
    assert (Hq : forall S', rq (nd S') = rq (nd S1) -> outs S' = outs S1 -> ROS (ae_commit cm None S')).
    { intros S' F O. apply (ROS_rq S1); [exact R1|exact F|]. unfold ae_commit. eapply grow_trans; [|apply grow_upd].
      apply grow_eq. exact O. }
    cbn [ae_body_of]. unfold set_transmission.
    destruct p as [|bl off len first last]; [apply Hq; reflexivity|].
    set (inc := if first then Some [] else incoming (sr (nd S1))). clearbody inc.
    destruct inc as [ps|]; [|apply Hq; reflexivity].
    destruct last; [|cbn [andb]; apply Hq; reflexivity].
    destruct (snap_ahead (assemble_snap (ps ++ [(bl, off, len)])) (applied (nd S1))) eqn:Eah;
      [|cbn [andb]; apply Hq; reflexivity].
    cbn [andb].
    set (B := assemble_snap (ps ++ [(bl, off, len)])).
    set (S1b := upd (fun n0 => n0 <| sr := (sr n0) <| stored := Some B |> <| incoming := None |> |>) S1).
    assert (Fb : rq (nd S1b) = rq (nd S1)) by reflexivity.
    assert (Ob : outs S1b = outs S1) by reflexivity.
    assert (Est : stored (sr (nd S1b)) = Some B) by reflexivity.
    assert (HB : forall sn0, B = Good sn0 -> eidx (s_e1 sn0) <= cm).
    { intros sn0 EB. destruct (assemble_good _ _ EB) as (_ & Hcontig).
      destruct (contig_last sn0 ps bl off len 0 Hcontig) as (sn' & Ebl & Heq).
      apply snap_eqb_true in Heq. destruct Heq as (Q1 & _).
      apply entry_eqb_true in Q1. destruct Q1 as (_ & Q1 & _). rewrite Q1.
      apply (Hin eq_refl sn' Ebl). }
    clearbody S1b.
    destruct (load_dump_ok S1b) eqn:Eok.
    2:{ destruct (load_dump_refuse_rq e S1b Eok) as [F O]. apply Hq; congruence. }
    destruct B as [sn0|k0] eqn:EB; [|unfold load_dump_ok in Eok; rewrite Est in Eok; discriminate Eok].
    destruct (load_dump_install_rq e S1b sn0 Est Eok Hd) as (I1 & I2 & I3 & I4 & I5 & I6 & I7 & I8).
    set (S2 := load_dump e true S1b) in *. clearbody S2.
    rewrite I6. set (K := eidx (s_e1 sn0)) in *.
    destruct (ae_tail2 a cm K S2) as [F3 G3]. cbv zeta in F3, G3.
    set (S3 := ae_commit cm (Some K) (send_next_idx a (Some (K + 1)) false true S2)) in *. clearbody S3.
    fvinj_n F3 T.
    destruct (rq_eq _ _ Fb) as (E1 & E2 & E3 & E4 & E5 & E6).
    assert (HapK : applied (nd S1) < K).
    { unfold load_dump_ok in Eok. rewrite Est in Eok. apply andb_prop in Eok as [Eok _].
      rewrite E5 in Eok. fold K in Eok. lia. }
    specialize (HB sn0 eq_refl). fold K in HB.
    apply (ROS_keep S1 S3); auto.
    + destruct (RO_h _ R1) as [B1 B2 B3]. constructor.
      * rewrite Tqueue, I4, E3. exact B1.
      * rewrite Treplay, Tapplied, I6. fold K. lia.
      * rewrite Tapplied, Tcommit, I6, I5, E6. fold K. destruct (commit (nd S1) <? cm) eqn:E; lia.
    + rewrite Tself, I1, E1. reflexivity.
    + rewrite Trole, I2, E2. reflexivity.
    + eapply grow_trans; [apply grow_eq; exact Ob|].
      eapply grow_trans; [apply grow_eq; exact I8|].
      eapply grow_mono; [|exact G3]. intros o ->. exact I.
  - (* pieces of a large entry *)
    cbn [ae_body_of].
    assert (Hq : forall S', rq (nd S') = rq (nd S1) -> grow (is_fail_reply a) S1 S' -> ROS S').
    { intros S' F G. destruct (rq_eq _ _ F) as (E1 & E2 & E3 & E4 & E5 & E6).
      apply (ROS_keep S1 S'); auto.
      - destruct (RO_h _ R1) as [B1 B2 B3]. constructor; rewrite ?E3, ?E4, ?E5, ?E6; auto.
      - eapply grow_mono; [|exact G]. apply fail_reply_ro. }
    destruct (lab =? 1).
    { apply Hq; [rewrite nd_send_next_idx, nd_upd; reflexivity|].
      eapply grow_trans; [apply grow_upd|]. apply grow_send_next_idx_fail. }
    destruct (recv_t (nd S1)); [apply Hq; [reflexivity|apply grow_eq; reflexivity]|].
    destruct (lab =? 2).
    { apply Hq; [rewrite nd_send_next_idx, nd_upd; reflexivity|].
      eapply grow_trans; [apply grow_upd|]. apply grow_send_next_idx_fail. }
    destruct (assemble_entry _) as [en'|]; [|apply Hq; [reflexivity|apply grow_eq; reflexivity]].
    apply Hreg. apply (ROS_rq S1); [exact R1|reflexivity|]. eapply grow_trans; apply grow_upd.
Qed.

Lemma ro_on_message a m x :
  ROS (start_S e x) -> ro_in m -> ROS (on_message e a m x).
Proof.
  intros R0 Hin. unfold on_message. set (S0 := start_S e x) in *.
  destruct m as [t li lt|t|t cm prev es|t cm prev lab off len en|t cm p|cm req|req okr p q|t nx rs su].
  - rewrite (RO_self _ R0). exact R0.
  - rewrite (RO_role _ R0). exact R0.
  - apply ro_on_append_entries; [exact R0|exact Hin|left; reflexivity].
  - apply ro_on_append_entries; [exact R0|exact Hin|right; right; eauto 8].
  - apply ro_on_append_entries; [exact R0|exact Hin|right; left; eauto].
  - apply ro_submit; auto.
  - destruct (aget req (wait_reply (nd S0))) as [cbk|]; [|exact R0].
    set (S1 := upd _ S0).
    assert (R1 : ROS S1) by (apply (ROS_quiet S0); [exact R0|reflexivity|apply grow_upd]).
    clearbody S1.
    destruct (negb okr).
    + apply (ROS_quiet S1); [exact R1|rewrite nd_fire; reflexivity|apply grow_fire; auto].
    + destruct (p <=? applied (nd S1)).
      * apply (ROS_quiet S1); [exact R1|rewrite nd_fire; reflexivity|apply grow_fire; auto].
      * apply (ROS_quiet S1); [exact R1|reflexivity|apply grow_upd].
  - rewrite (RO_role _ R0). exact R0.
Qed.

End RO.
