(* C05, elections resolve, part 5: a split vote does not wedge.  Two candidates of the same term refuse
   each other silently and stay candidates; at its next deadline each of them starts the next term. *)
From Coq Require Import ZArith NArith List Bool Lia.
From RecordUpdate Require Import RecordSet.
From PSO Require Import Raft.Types Raft.Node Raft.Net Raft.Obs Raft.ProofsSnapshotBase Raft.ProofsCommitBase
  Raft.ProofsProgressElectBase Raft.ProofsProgressElectTick Raft.ProofsProgressElectVote
  Raft.ProofsProgressElectMain.
Import ListNotations.
Import RecordSetNotations.
Open Scope N_scope.

Lemma finish_silent b s g a d : outs s = [] -> chan_get a d (finish b s g) = chan_get a d g.
Proof. intros H. unfold finish. rewrite H. reflexivity. Qed.

(* a candidate of term T that has voted (for itself) is handed a rival's RequestVote of the same term *)
Lemma rival_step c g a b now rnd ord nb T lli llt rest v :
  aget b (nodes g) = Some nb -> self nb <> None -> term nb = T -> voted nb = Some v ->
  chan_get a b g = RequestVote T lli llt :: rest ->
  exists g' o, gstep c g (EDeliver a b now rnd ord) = Some (g', o) /\
    (forall z, aget z (nodes g') = aget z (nodes g)) /\
    chan_get a b g' = rest /\
    (forall a' d', (a' <> a \/ d' <> b) -> chan_get a' d' g' = chan_get a' d' g).
Proof.
  intros Hn Hs Ht Hv Hc.
  pose proof (deliver_step c g a b now rnd ord nb _ _ Hn Hc) as E. cbv zeta in E.
  set (e := mk_env c now rnd DEFAULT_BUDGET ord 0) in *.
  rewrite (rival_request_ignored e a T lli llt nb v Hs Ht Hv) in E.
  eexists. eexists. split; [exact E|]. split; [|split].
  - intros z. unfold finish. rewrite route_nodes. unfold put_node. cbn. rewrite pe_aget_aset.
    destruct (z =? b) eqn:Ez; [apply N.eqb_eq in Ez; subst z; symmetry; exact Hn|reflexivity].
  - rewrite finish_silent by reflexivity. apply pe_chan_get_set_same.
  - intros a' d' Hne. rewrite finish_silent by reflexivity. apply pe_chan_get_set_other. exact Hne.
Qed.

(* C05_split_vote_retries *)
Lemma split_vote_retries c g x1 x2 n1 n2 T l1 t1 l2 t2 r1 r2 nowa rnda orda nowb rndb ordb now rnd bud ord sl :
  x1 <> x2 ->
  aget x1 (nodes g) = Some n1 -> aget x2 (nodes g) = Some n2 ->
  self n1 = Some x1 -> role n1 = CANDIDATE -> term n1 = T -> voted n1 = Some x1 ->
  self n2 = Some x2 -> role n2 = CANDIDATE -> term n2 = T -> voted n2 = Some x2 ->
  chan_get x1 x2 g = RequestVote T l1 t1 :: r1 ->
  chan_get x2 x1 g = RequestVote T l2 t2 :: r2 ->
  (* x1's next deadline *)
  need_load n1 && file_dump c = false -> replay_done n1 -> (queue n1 = [] \/ wait_leader c = true) ->
  (deadline n1 < now)%Z -> connected_to_anyone n1 = true -> others n1 <> [] ->
  exists g' g'' n1',
    run_trace c g [EDeliver x1 x2 nowa rnda orda; EDeliver x2 x1 nowb rndb ordb] = Some g' /\
    (* both candidacies fail silently: nothing changed but the two consumed requests *)
    aget x1 (nodes g') = Some n1 /\ aget x2 (nodes g') = Some n2 /\
    chan_get x1 x2 g' = r1 /\ chan_get x2 x1 g' = r2 /\
    (forall a d, ~ (a = x1 /\ d = x2) -> ~ (a = x2 /\ d = x1) -> chan_get a d g' = chan_get a d g) /\
    (* and the next deadline starts the next term *)
    run_trace c g' [ETick x1 now rnd bud ord sl] = Some g'' /\
    aget x1 (nodes g'') = Some n1' /\ role n1' = CANDIDATE /\ term n1' = T + 1 /\ voted n1' = Some x1 /\
    votes n1' = 1 /\
    wire (outs (on_tick (mk_env c now rnd bud ord sl) n1)) = map (fun y => Send y (rv_of n1)) (rv_targets n1).
Proof.
  intros Hne N1 N2 S1 R1 T1 V1 S2 R2 T2 V2 C12 C21 Hl Hr Hq Hd Hc Ho.
  assert (S2' : self n2 <> None) by (rewrite S2; discriminate).
  assert (S1' : self n1 <> None) by (rewrite S1; discriminate).
  destruct (rival_step c g x1 x2 nowa rnda orda n2 T l1 t1 r1 x2 N2 S2' T2 V2 C12) as (ga & oa & Ea & Na & Ca & Fa).
  assert (N1a : aget x1 (nodes ga) = Some n1) by (rewrite Na; exact N1).
  assert (C21a : chan_get x2 x1 ga = RequestVote T l2 t2 :: r2).
  { rewrite Fa by (left; auto). exact C21. }
  destruct (rival_step c ga x2 x1 nowb rndb ordb n1 T l2 t2 r2 x1 N1a S1' T1 V1 C21a) as (gb & ob & Eb & Nb & Cb & Fb).
  assert (N1b : aget x1 (nodes gb) = Some n1) by (rewrite Nb; exact N1a).
  pose proof (tick_step c gb x1 now rnd bud ord sl n1 N1b) as Et. cbv zeta in Et.
  set (e := mk_env c now rnd bud ord sl) in *.
  destruct (candidate_start e n1 x1 S1 (or_intror R1) Hl Hr Hq Hd Hc Ho)
    as (A1 & A2 & A3 & A4 & A5 & A6 & A7 & A8 & A9 & A10 & A11 & A12).
  cbv zeta in A1, A2, A3, A4, A5, A6, A7, A8, A9, A10, A11, A12.
  exists gb. eexists. exists (nd (on_tick e n1)).
  split; [rewrite (run_trace_cons _ _ _ _ _ _ Ea); apply (run_trace_one _ _ _ _ _ Eb)|].
  split; [exact N1b|]. split; [rewrite Nb, Na; exact N2|].
  split; [rewrite Fb by (left; auto); exact Ca|]. split; [exact Cb|]. split.
  { intros a d H1 H2. rewrite Fb, Fa; auto.
    - destruct (N.eq_dec a x1) as [->|]; [|left; auto]. right. intros ->. apply H1. auto.
    - destruct (N.eq_dec a x2) as [->|]; [|left; auto]. right. intros ->. apply H2. auto. }
  split; [apply (run_trace_one _ _ _ _ _ Et)|].
  split; [apply finish_node|]. rewrite <- T1. auto 10.
Qed.
