(* Canonical observation of a step (the same numbers harness/sim.py computes from the real
   objects) and the trace check used by the correspondence. *)
From Coq Require Import ZArith NArith List Bool Uint63.
From PSO Require Import Raft.Types Raft.Node Raft.Net.
Import ListNotations.
Open Scope N_scope.

Definition L {A} (f : A -> list N) (xs : list A) : list N :=
  N.of_nat (length xs) :: flat_map f xs.

Definition opt (x : option N) : N := match x with None => 0 | Some v => v + 1 end.
Definition b2n (b : bool) : N := if b then 1 else 0.
Definition tN (z : Z) : N := Z.to_N z.

Definition cmd_enc (c : cmd) : list N := [ck c; ca c; cb c; csz c].
Definition entry_enc (e : entry) : list N := cmd_enc (ecmd e) ++ [eidx e; eterm e].
Definition cb_enc (c : cbref) : list N :=
  match c with CbNone => [0; 0; 0] | CbLocal id => [1; id; 0] | CbRemote n r => [2; n; r] end.

Definition prev_enc (p : option (N * N)) : list N :=
  match p with None => [0; 0] | Some (i, t) => [i + 1; t + 1] end.

Definition msg_enc (m : msg) : list N :=
  match m with
  | RequestVote t lli llt => [1; t; lli; llt]
  | ResponseVote t => [2; t]
  | AE t c prev es => [3; t; c] ++ prev_enc prev ++ L entry_enc es
  | AEPiece t c prev lab off len e => [4; t; c] ++ prev_enc prev ++ [lab; len]
  | AESnap t c SNone => [5; t; c; 0]
  | AESnap t c (SData b off len first last) => [5; t; c; 2; len; b2n first; b2n last]
  | ApplyCmd c req => [6] ++ cmd_enc c ++ [opt req]
  | ApplyResp req false a _ => [7; req; 0; a]
  | ApplyResp req true a b => [7; req; 1; a; b]
  | NextIdx t nx r s => [8; t; nx; b2n r; b2n s]
  end.

Definition node_enc (n : node) : list N :=
  [role n; term n; opt (voted n); votes n; opt (leader n); tN (deadline n); commit n; applied n]
  ++ L entry_enc (log n)
  ++ L (fun x => [x]) (others n)
  ++ L (fun x => [x]) (readonly n)
  ++ L (fun x => [x]) (connected n)
  ++ L (fun x => [x]) (tconn n)
  ++ L (fun kv => [fst kv; snd kv]) (next_idx n)
  ++ L (fun kv => [fst kv; snd kv]) (match_idx n)
  ++ L (fun kv => [fst kv; tN (snd kv)]) (last_resp n)
  ++ [opt (leader_commit n); b2n (ready_called n); opt (change_idx n); opt (noop_idx n); tN (new_ae_time n)]
  ++ L (fun q => cmd_enc (fst q) ++ cb_enc (snd q)) (queue n)
  ++ L (fun kv => fst kv :: L (fun tc => fst tc :: cb_enc (snd tc)) (snd kv)) (wait_commit n)
  ++ [local_ctr n]
  ++ L (fun kv => fst kv :: cb_enc (snd kv)) (wait_reply n)
  ++ [fold_left (fun a p => a + snd p) (recv_t n) 0; b2n (force_compact n); tN (last_ser_time n);
      opt (last_ser_entry n)]
  ++ [pid (sr n); cur_id (sr n)]
  ++ L (fun kv => [fst kv; snd (snd kv)]) (trans (sr n))
  ++ [match incoming (sr n) with None => 0 | Some ps => 1 + pieces_total ps end]
  ++ L (fun x => [x]) (hist n)
  ++ [enabled_ver n; b2n (need_load n); replay_idx n].

Definition dsts (os : list out) : list N :=
  fold_left (fun acc o => match o with Send d _ => sadd d acc | _ => acc end) os [].

(* transport add/drop notifications: within a run of the same kind the order is the iteration order of a Python
   set (unobservable), so each run is sorted by node id *)
Fixpoint ins_pair (p : N * N) (l : list (N * N)) : list (N * N) :=
  match l with
  | [] => [p]
  | q :: r => if snd p <=? snd q then p :: l else q :: ins_pair p r
  end.

Fixpoint canon_t (run : list (N * N)) (l : list (N * N)) : list (N * N) :=
  match l with
  | [] => run
  | p :: r =>
    match run with
    | [] => canon_t [p] r
    | q :: _ => if fst p =? fst q then canon_t (ins_pair p run) r else run ++ canon_t [p] r
    end
  end.

Definition tlog_of (os : list out) : list (N * N) :=
  flat_map (fun o => match o with TAdd x => [(1, x)] | TDrop x => [(2, x)] | _ => [] end) os.

Definition outs_enc (s : S) : list N :=
  let os := outs s in
  L (fun d => d :: L (fun o => match o with
                               | Send d' m => if d' =? d then let x := msg_enc m in N.of_nat (length x) :: x else []
                               | _ => [] end)
                     (filter (fun o => match o with Send d' _ => d' =? d | _ => false end) os))
    (dsts os)
  ++ L (fun o => match o with Fired c r e => [c; r; e] | _ => [] end)
       (filter (fun o => match o with Fired _ _ _ => true | _ => false end) os)
  ++ L (fun o => match o with Role a b => [a; b] | _ => [] end)
       (filter (fun o => match o with Role _ _ => true | _ => false end) os)
  ++ L (fun p => [fst p; snd p]) (canon_t [] (tlog_of os))
  ++ [exc s; njmp s].

(* digest of an observation: a multiplicative hash over machine integers (wraps modulo 2^63), computed
   identically by harness/sim.py:hnums *)
Definition n2i (x : N) : int := match x with N0 => 0%uint63 | Npos p => Uint63.of_pos p end.
Definition hstep (acc : int) (x : N) : int := (acc * 1000003 + n2i x + 1)%uint63.
Definition hnums (xs : list N) (acc : int) : int := fold_left hstep xs acc.

Definition step_obs (r : option (nid * S)) : list N * list N :=
  match r with
  | Some (_, s) => (node_enc (nd s), outs_enc s)
  | None => ([], outs_enc (idle_S (init_node (mk_env (mkConf 0 0 0 0 0 0 true false true 0 0 0 0 false false) 0 0 0 [] 0) None [] 0)))
  end.

Definition digest (r : option (nid * S)) : int :=
  let (a, b) := step_obs r in hnums b (hnums a 7%uint63).

(* index of the first event whose digest differs from the implementation's (or that is not enabled) *)
Fixpoint check_trace (c : conf) (g : gstate) (evs : list event) (expected : list int) (i : N) : option N :=
  match evs, expected with
  | [], [] => None
  | ev :: evs', d :: exp' =>
    match gstep c g ev with
    | None => Some i
    | Some (g', r) => if Uint63.eqb (digest r) d then check_trace c g' evs' exp' (i + 1) else Some i
    end
  | _, _ => Some i
  end.

(* full observation of step i (for diagnosis of a divergence) *)
Fixpoint obs_at (c : conf) (g : gstate) (evs : list event) (i : nat) : option (list N * list N) :=
  match evs with
  | [] => None
  | ev :: evs' =>
    match gstep c g ev with
    | None => None
    | Some (g', r) => match i with O => Some (step_obs r) | Datatypes.S i' => obs_at c g' evs' i' end
    end
  end.

Fixpoint run_trace (c : conf) (g : gstate) (evs : list event) : option gstate :=
  match evs with
  | [] => Some g
  | ev :: r => match gstep c g ev with Some (g', _) => run_trace c g' r | None => None end
  end.
