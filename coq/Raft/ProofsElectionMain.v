(* Election safety (C03/C07), part 7: every event preserves the invariant; the theorems. *)
From Coq Require Import ZArith NArith List Bool Lia.
From RecordUpdate Require Import RecordSet.
From PSO Require Import Raft.Types Raft.Node Raft.Net Raft.Obs Raft.ProofsElectionBase
  Raft.ProofsElectionFrame Raft.ProofsElectionFrame2 Raft.ProofsElectionStep Raft.ProofsElectionGhost
  Raft.ProofsElectionInv.
Import ListNotations.
Import RecordSetNotations.
Open Scope N_scope.

Lemma inv_ghost_eq V g gh gh' st :
  wins gh' = wins gh -> grants gh' = grants gh -> Inv V g gh st -> Inv V g gh' st.
Proof.
  intros Ew Eg I. constructor; unfold nvotes; rewrite ?Ew, ?Eg.
  - apply (I_sorted _ _ _ _ I).
  - apply (I_node _ _ _ _ I).
  - apply (I_disk _ _ _ _ I).
  - apply (I_grant _ _ _ _ I).
  - apply (I_key _ _ _ _ I).
  - apply (I_cnt _ _ _ _ I).
  - apply (I_win _ _ _ _ I).
Qed.

Lemma idle_passive x y : big y = big x -> passive x (idle_S y) /\ others y = others x /\ (rinv x -> rinv y).
Proof.
  intros Hb. pose proof (f_equal fst Hb) as Hc. pose proof (f_equal snd Hb) as Ha. simpl in Hc, Ha.
  unfold core in Hc. unfold aux in Ha. injection Hc; intros. injection Ha; intros.
  unfold passive, rinv. cbn. repeat split; auto; try lia; try congruence.
Qed.

(* an api call: quiet *)
Lemma api_passive e x s :
  rel K0 (start_S e x) s -> rel KB (start_S e x) s ->
  passive x s /\ others (nd s) = others x /\ (rinv x -> rinv (nd s)).
Proof. intros H0 [HB1 HB2]. split; [apply (rel0_passive e); auto | auto]. Qed.

(* the dump-file condition of a step: a tick that is to load the dump file finds nothing stored *)
Definition tick_ok (c : conf) (g : gstate) (ev : event) : Prop :=
  match ev with
  | ETick n _ _ _ _ _ =>
      forall x, aget n (nodes g) = Some x -> need_load x && file_dump c = true -> stored (sr x) = None
  | _ => True
  end.

Lemma tick_ok_static c g ev : file_dump c = false -> tick_ok c g ev.
Proof. intros Hf. destruct ev; cbn; auto. intros x _ H. rewrite Hf, andb_false_r in H. discriminate. Qed.

(* static membership; with a dump file under the condition [tick_ok] *)
Lemma inv_gstep_gen V c g gh st ev g' r :
  dyn c = false -> tick_ok c g ev -> NoDup V -> (forall v, In v V -> v < RO_BASE) ->
  Inv V g gh st -> ev_ok V st ev = true ->
  gstep c g ev = Some (g', r) ->
  Inv V g' (ghost_step ev g r gh) (st_after st ev).
Proof.
  intros St Tk ND HV I Hev Hstep.
  destruct ev as [n now rnd bud ord sl | a b now rnd ord | a b | a b k | a b | n cm cb | n cm cb | n cm cb
                 | n | n | n oth now rnd sv]; unfold gstep in Hstep; cbn [st_after].
  - (* ETick *)
    destruct (aget n (nodes g)) as [x|] eqn:Hx; [|discriminate].
    injection Hstep as <- <-.
    set (e := mk_env c now rnd bud ord sl) in *.
    pose proof (I_node _ _ _ _ I n x Hx) as Hok. pose proof Hok as (Rx & _).
    assert (Tp : tickp e x) by (exact (Tk x Hx)).
    destruct (on_tick_relB e x St Tp Rx) as [Eo Ry]. cbn in Eo. specialize (Ry Rx).
    pose proof (on_tick_spec e x) as Sp.
    unfold ghost_step, self_grant. rewrite Hx.
    set (s := on_tick e x) in *. clearbody s.
    destruct Sp as [Cm|Cd].
    + assert (Et : term (nd s) = term x) by (destruct Cm as (_ & B & _); exact B).
      replace (term x <? term (nd s)) with false by (rewrite Et; symmetry; apply N.ltb_irrefl).
      apply (inv_passive V g g gh st n x s I eq_refl eq_refl); auto.
      apply (calm_passive e); auto.
    + assert (Et : term x <? term (nd s) = true).
      { destruct Cd as (me & _ & _ & B & _). apply N.ltb_lt. lia. }
      rewrite Et.
      apply (inv_cand V g gh st n x s (tick_maj e x) I Hx Cd Ry Eo); auto.
      intros (n1 & M1 & O1). exists n1. auto.
  - (* EDeliver *)
    destruct (aget b (nodes g)) as [x|] eqn:Hx; [|discriminate].
    destruct (chan_get a b g) as [|m rest] eqn:Hch; [discriminate|].
    injection Hstep as <- <-.
    set (e := mk_env c now rnd DEFAULT_BUDGET ord 0) in *.
    pose proof (I_node _ _ _ _ I b x Hx) as Hok. pose proof Hok as (Rx & _).
    destruct (on_message_relB e a m x St) as [Eo Ry]. cbn in Eo. specialize (Ry Rx).
    pose proof (on_message_spec e a m x) as Sp.
    unfold ghost_step, self_grant.
    set (s := on_message e a m x) in *. clearbody s.
    destruct Sp as [Ps|Ct].
    + apply (inv_passive V g (chan_set a b rest g) gh st b x s I eq_refl eq_refl); auto.
      intros T c0. apply inflight_chan_set_le. rewrite Hch, cnt_cons. lia.
    + pose proof Ct as (Em & _). subst m.
      apply (inv_count V g gh st a b x s rest I Hx Hch Ct Ry ND).
  - (* EDrop *)
    destruct (aget a (nodes g)) as [x|] eqn:Hx; [|discriminate].
    injection Hstep as <- <-.
    destruct (idle_passive x (on_disconnected b x) (on_disconnected_big b x)) as (Ps & Eo & Ry).
    pose proof (I_node _ _ _ _ I a x Hx) as (Rx & _).
    apply (inv_chan_le V (finish a (idle_S (on_disconnected b x)) g)); [| reflexivity | reflexivity |].
    + apply (inv_passive V g g gh st a x (idle_S (on_disconnected b x)) I eq_refl eq_refl); auto.
    + intros T c0. apply inflight_chan_set_le. rewrite cnt_nil. lia.
  - (* ELose *)
    injection Hstep as <- <-. cbn [ghost_step].
    apply (inv_chan_le V g); [exact I | reflexivity | reflexivity |].
    intros T c0. apply inflight_chan_set_le. apply cnt_firstn_le.
  - (* EConnect *)
    destruct (aget a (nodes g)) as [x|] eqn:Hx; [|discriminate].
    injection Hstep as <- <-.
    destruct (idle_passive x (on_connected b x) (on_connected_big b x)) as (Ps & Eo & Ry).
    pose proof (I_node _ _ _ _ I a x Hx) as (Rx & _).
    match goal with |- context [finish a _ ?G1] => set (g1 := G1) end.
    assert (H1 : nodes g1 = nodes g /\ disks g1 = disks g /\
                 forall T c0, (inflight g1 T c0 <= inflight g T c0)%nat).
    { subst g1. destruct (match aget b (nodes g) with Some y => negb (smem a (tconn y)) | None => true end).
      - repeat split; auto. intros T c0.
        eapply Nat.le_trans; [apply inflight_chan_set_le; rewrite cnt_nil; lia|].
        apply inflight_chan_set_le; rewrite cnt_nil; lia.
      - repeat split; auto. }
    destruct H1 as (En & Ed & Hle).
    apply (inv_passive V g g1 gh st a x (idle_S (on_connected b x)) I En Ed); auto.
  - (* ESubmit *)
    destruct (aget n (nodes g)) as [x|] eqn:Hx; [|discriminate].
    injection Hstep as <- <-.
    pose proof (I_node _ _ _ _ I n x Hx) as (Rx & _).
    destruct (api_submit_spec (mk_env c 0 0 DEFAULT_BUDGET [] 0) cm (cb_of cb) x) as [H0 HB].
    destruct (api_passive _ _ _ H0 HB) as (Ps & Eo & Ry).
    apply (inv_passive V g g gh st n x _ I eq_refl eq_refl); auto.
  - (* EAdmin *)
    destruct (aget n (nodes g)) as [x|] eqn:Hx; [|discriminate].
    injection Hstep as <- <-.
    pose proof (I_node _ _ _ _ I n x Hx) as (Rx & _).
    destruct (api_admin_spec (mk_env c 0 0 DEFAULT_BUDGET [] 0) cm (cb_of cb) x) as [H0 HB].
    destruct (api_passive _ _ _ H0 HB) as (Ps & Eo & Ry).
    apply (inv_passive V g g gh st n x _ I eq_refl eq_refl); auto.
  - (* ESetVer *)
    destruct (aget n (nodes g)) as [x|] eqn:Hx; [|discriminate].
    injection Hstep as <- <-.
    pose proof (I_node _ _ _ _ I n x Hx) as (Rx & _).
    destruct (api_setver_spec (mk_env c 0 0 DEFAULT_BUDGET [] 0) cm (cb_of cb) x) as [H0 HB].
    destruct (api_passive _ _ _ H0 HB) as (Ps & Eo & Ry).
    apply (inv_passive V g g gh st n x _ I eq_refl eq_refl); auto.
  - (* ECompact *)
    destruct (aget n (nodes g)) as [x|] eqn:Hx; [|discriminate].
    injection Hstep as <- <-.
    destruct (idle_passive x (api_compact x) (api_compact_big x)) as (Ps & Eo & Ry).
    pose proof (I_node _ _ _ _ I n x Hx) as (Rx & _).
    apply (inv_passive V g g gh st n x (idle_S (api_compact x)) I eq_refl eq_refl); auto.
  - (* EKill *)
    injection Hstep as <- <-. cbn [ghost_step].
    destruct (aget n (nodes g)) as [x|] eqn:Hx.
    + pose proof (I_node _ _ _ _ I n x Hx) as (_ & Hv & _).
      destruct (disk_of c x) as [d|].
      * apply (inv_kill V g gh st n (aset n d (disks g)) I).
        intros v d' Hin Hlt. apply In_aset in Hin as [[-> _]|Hin].
        -- destruct (Hv Hlt) as (_ & B & _). exact B.
        -- apply (I_disk _ _ _ _ I v d' Hin Hlt).
      * apply (inv_kill V g gh st n (adel n (disks g)) I).
        intros v d' Hin Hlt. apply In_adel in Hin. apply (I_disk _ _ _ _ I v d' Hin Hlt).
    + apply (inv_kill V g gh st n (disks g) I). apply (I_disk _ _ _ _ I).
  - (* ERestart *)
    injection Hstep as <- <-.
    apply (inv_ghost_eq V _ gh); [reflexivity | reflexivity |].
    cbn [ev_ok] in Hev.
    destruct (n <? RO_BASE) eqn:Hn.
    + apply N.ltb_lt in Hn.
      apply andb_true_iff in Hev as [Hev H3]. apply andb_true_iff in Hev as [H1 H2].
      apply smem_In in H1. apply leqb_eq in H3. subst oth.
      assert (Hnst : ~ In n st).
      { intros Hin. apply smem_In in Hin. rewrite Hin in H2. discriminate. }
      assert (Hle : RO_BASE <=? n = false) by (apply N.leb_gt; exact Hn).
      rewrite Hle.
      assert (Hd : aget n (disks g) = None).
      { destruct (aget n (disks g)) as [d|] eqn:E; auto. exfalso. apply Hnst.
        apply aget_In in E. apply (I_disk _ _ _ _ I n d E Hn). }
      rewrite Hd.
      apply (inv_restart V g gh st (n :: st) n); auto.
      * intros v Hv. right; auto.
      * split; [unfold rinv; cbn; lia|]. split.
        -- intros _. cbn. repeat split; auto.
        -- intros Hge. lia.
      * left. intros t c0 Hin. apply Hnst. destruct (I_grant _ _ _ _ I t n c0 Hin) as (_ & B & _). exact B.
    + apply N.ltb_ge in Hn.
      assert (Hle : RO_BASE <=? n = true) by (apply N.leb_le; exact Hn).
      rewrite Hle.
      assert (Ex : match aget n (disks g) with
                   | Some d => init_node (mk_env c now rnd DEFAULT_BUDGET [] 0) None oth sv
                   | None => init_node (mk_env c now rnd DEFAULT_BUDGET [] 0) None oth sv
                   end = init_node (mk_env c now rnd DEFAULT_BUDGET [] 0) None oth sv)
        by (destruct (aget n (disks g)); reflexivity).
      rewrite Ex.
      apply (inv_restart V g gh st st n); auto.
      * apply incl_refl.
      * split; [unfold rinv; cbn; lia|]. split.
        -- intros Hlt. lia.
        -- intros _. cbn. auto.
      * right. intros Hin. specialize (HV n Hin). lia.
Qed.

Lemma inv_gstep V c g gh st ev g' r :
  static c -> NoDup V -> (forall v, In v V -> v < RO_BASE) ->
  Inv V g gh st -> ev_ok V st ev = true ->
  gstep c g ev = Some (g', r) ->
  Inv V g' (ghost_step ev g r gh) (st_after st ev).
Proof. intros [Hd Hf]. apply inv_gstep_gen; [exact Hd|apply tick_ok_static; exact Hf]. Qed.

Lemma inv_grun V c : static c -> NoDup V -> (forall v, In v V -> v < RO_BASE) ->
  forall evs g gh st g' gh',
  Inv V g gh st -> valid_from V st evs = true ->
  grun c g gh evs = Some (g', gh') -> exists st', Inv V g' gh' st'.
Proof.
  intros St ND HV. induction evs as [|ev r IH]; simpl; intros g gh st g' gh' I Hv Hr.
  - injection Hr as <- <-. eauto.
  - apply andb_true_iff in Hv as [H1 H2].
    destruct (gstep c g ev) as [[g1 res]|] eqn:E; [|discriminate].
    eapply IH; [| exact H2 | exact Hr].
    eapply inv_gstep; eauto.
Qed.

(* ---------- combinatorial end game ---------- *)
Definition voters (gh : ghost) (T : N) (c : nid) : list nid :=
  map (fun gr => snd (fst gr)) (filter (gmatch T c) (grants gh)).

Lemma voters_length gh T c : length (voters gh T c) = nvotes gh T c.
Proof. unfold voters, nvotes, cnt. apply map_length. Qed.

Lemma voters_In gh T c v : In v (voters gh T c) <-> In (T, v, c) (grants gh).
Proof.
  unfold voters. rewrite in_map_iff. split.
  - intros [[[t v'] c'] [E H]]. simpl in E; subst v'. apply filter_In in H as [H M].
    unfold gmatch in M; simpl in M. apply andb_true_iff in M as [M1 M2].
    apply N.eqb_eq in M1, M2. subst; auto.
  - intros H. exists (T, v, c). split; auto. apply filter_In; split; auto.
    unfold gmatch; simpl. rewrite !N.eqb_refl; auto.
Qed.

Lemma NoDup_map_filter {A B} (f : A -> B) (p : A -> bool) l : NoDup (map f l) -> NoDup (map f (filter p l)).
Proof.
  induction l as [|h t IH]; simpl; intros H; [constructor|]. inversion H; subst.
  destruct (p h); simpl; auto. constructor; auto. intros HIn; apply H2.
  apply in_map_iff in HIn as [x [E Hx]]. apply filter_In in Hx as [Hx _]. apply in_map_iff; eauto.
Qed.

Lemma voters_NoDup gh T c : NoDup (map key (grants gh)) -> NoDup (voters gh T c).
Proof.
  intros H. unfold voters.
  assert (H1 := NoDup_map_filter key (gmatch T c) _ H).
  remember (filter (gmatch T c) (grants gh)) as l.
  assert (HT : forall gr, In gr l -> fst (fst gr) = T).
  { subst l; intros gr Hg. apply filter_In in Hg as [_ M]. unfold gmatch in M.
    apply andb_true_iff in M as [M _]. apply N.eqb_eq in M; auto. }
  clear Heql H. induction l as [|gr l IH]; simpl; [constructor|].
  inversion H1; subst. constructor.
  - intros HIn. apply H2. apply in_map_iff in HIn as [g' [E Hg']].
    apply in_map_iff. exists g'. split; auto. unfold key. rewrite E.
    rewrite (HT g' (or_intror Hg')), (HT gr (or_introl eq_refl)); auto.
  - apply IH; auto. intros g' Hg'; apply HT; right; auto.
Qed.

Lemma key_unique (l : list (N * nid * nid)) t v c c' :
  NoDup (map key l) -> In (t, v, c) l -> In (t, v, c') l -> c = c'.
Proof.
  induction l as [|gr l IH]; simpl; intros ND H1 H2; [contradiction|].
  inversion ND; subst.
  destruct H1 as [H1|H1], H2 as [H2|H2]; subst.
  - congruence.
  - exfalso; apply H3. apply in_map_iff. exists (t, v, c'); auto.
  - exfalso; apply H3. apply in_map_iff. exists (t, v, c); auto.
  - eauto.
Qed.

Lemma inv_one_leader V g gh st t a b :
  NoDup V -> Inv V g gh st -> In (t, a) (wins gh) -> In (t, b) (wins gh) -> a = b.
Proof.
  intros ND I Ha Hb.
  pose proof (I_win _ _ _ _ I _ _ Ha) as Wa. pose proof (I_win _ _ _ _ I _ _ Hb) as Wb.
  rewrite <- voters_length in Wa, Wb.
  destruct (majorities_intersect (voters gh t a) (voters gh t b) V) as (v & Va & Vb); auto.
  - apply voters_NoDup. apply (I_key _ _ _ _ I).
  - apply voters_NoDup. apply (I_key _ _ _ _ I).
  - intros v Hv. apply voters_In in Hv. apply (I_grant _ _ _ _ I) in Hv. tauto.
  - intros v Hv. apply voters_In in Hv. apply (I_grant _ _ _ _ I) in Hv. tauto.
  - apply voters_In in Va, Vb. eapply key_unique; eauto. apply (I_key _ _ _ _ I).
Qed.

(* ---------- the theorems ---------- *)
Lemma reach_inv c V evs g gh :
  dyn c = false -> file_dump c = false -> valid V evs = true ->
  grun c ginit gh0 evs = Some (g, gh) -> NoDup V /\ exists st, Inv V g gh st.
Proof.
  intros Hd Hf Hv Hr. unfold valid in Hv. apply andb_true_iff in Hv as [H1 H2].
  destruct (Vok_spec V H1) as (ND & HV & _). split; auto.
  eapply (inv_grun V c); eauto. split; auto. apply inv_init.
Qed.

Lemma election_safety c V evs g gh :
  dyn c = false -> file_dump c = false -> valid V evs = true ->
  grun c ginit gh0 evs = Some (g, gh) ->
  forall t a b, In (t, a) (wins gh) -> In (t, b) (wins gh) -> a = b.
Proof.
  intros Hd Hf Hv Hr t a b Ha Hb.
  destruct (reach_inv c V evs g gh Hd Hf Hv Hr) as (ND & st & I).
  eapply inv_one_leader; eauto.
Qed.

Lemma vote_once c V evs g gh :
  dyn c = false -> file_dump c = false -> valid V evs = true ->
  grun c ginit gh0 evs = Some (g, gh) ->
  forall t v c1 c2, In (t, v, c1) (grants gh) -> In (t, v, c2) (grants gh) -> c1 = c2.
Proof.
  intros Hd Hf Hv Hr t v c1 c2 H1 H2.
  destruct (reach_inv c V evs g gh Hd Hf Hv Hr) as (ND & st & I).
  eapply key_unique; eauto. apply (I_key _ _ _ _ I).
Qed.

(* every win is backed by grants from more than half of V, each voter granting once *)
Lemma win_has_quorum c V evs g gh :
  dyn c = false -> file_dump c = false -> valid V evs = true ->
  grun c ginit gh0 evs = Some (g, gh) ->
  forall t a, In (t, a) (wins gh) ->
    NoDup (voters gh t a) /\ incl (voters gh t a) V /\ (length V < 2 * length (voters gh t a))%nat.
Proof.
  intros Hd Hf Hv Hr t a Ha.
  destruct (reach_inv c V evs g gh Hd Hf Hv Hr) as (ND & st & I).
  split; [apply voters_NoDup; apply (I_key _ _ _ _ I)|]. split.
  - intros v Hin. apply voters_In in Hin. apply (I_grant _ _ _ _ I) in Hin. tauto.
  - rewrite voters_length. apply (I_win _ _ _ _ I _ _ Ha).
Qed.
