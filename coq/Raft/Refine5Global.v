(* Tier C3, part 10: from the local simulations to the global relation (compacted logs, snapshot
   blobs): routing of the outputs of a step, the ghost link with the election worker's history. *)
From Coq Require Import ZArith NArith List Bool Lia ZifyBool Arith PeanoNat.
From RecordUpdate Require Import RecordSet.
From PSO Require Import Raft.Types Raft.Node Raft.Net Raft.Obs Raft.ProofsCommitBase.
From PSO Require Import Raft.ProofsElectionBase Raft.ProofsElectionFrame Raft.ProofsElectionStep
  Raft.ProofsElectionGhost Raft.ProofsElectionInv Raft.ProofsElectionMain.
From PSO Require Import Raft.RefineAbs Raft.RefineK Raft.RefineSpecA Raft.RefineGlobal.
From PSO Require Import Raft.Refine5Abs Raft.Refine5SpecA Raft.Refine5Sim.
From PSO Require Abstract.Model Abstract.Lib Abstract.Kstep Abstract.Safety1_WF Abstract.Safety2_Election.
Import ListNotations.
Import RecordSetNotations.
Open Scope N_scope.

Section Global.
Variable c : conf.
Variable V : list nid.
Hypothesis NDV : NoDup V.
Hypothesis VRO : forall v, In v V -> v < RO_BASE.
Hypothesis VNE : V <> [].
Hypothesis Hb1 : 1 < batch c.
Set Default Proof Using "All".

Notation V' := (absV V).
Notation Rn := (Rn c V).
Notation Rmsg := (Rmsg c).
Notation Ro := (Ro c).
Notation Hn := (Hn c).
Notation Hr := (Hr c).
Notation R := (R c V).
Notation ksn := (ksn V).
Notation LS := (LS c V).

(* LS for a running voter at the start of a handler *)
Lemma LS_start g gh st s e n x :
  Inv V g gh st -> KS.kreachable V' s -> R g gh st s -> aget n (nodes g) = Some x -> n < RO_BASE ->
  LS n s (start_S e x) /\ In n st.
Proof.
  intros I HR RR Hx Hlt.
  destruct (I_node _ _ _ _ I n x Hx) as (_ & Hv & _). destruct (Hv Hlt) as (A & B & C & D).
  split; auto. constructor; auto.
  - apply (R_node _ _ _ _ _ _ RR n x Hx Hlt).
  - apply Ro_nil.
  - apply (R_hyg _ _ _ _ _ _ RR n x Hx Hlt).
Qed.

(* the candidate can count one more vote: a granter it has not counted yet *)
Lemma uncounted_granter g gh st s a b x t :
  Inv V g gh st -> KS.kreachable V' s -> R g gh st s -> aget b (nodes g) = Some x -> b < RO_BASE ->
  In (ResponseVote t) (chan_get a b g) -> role x = CANDIDATE -> t = term x ->
  exists v, ~ In v (M.votesFrom (M.nodes s (n2 b))) /\ In (M.Vote (n2 t) v (n2 b)) (M.net s).
Proof.
  intros I HR RR Hx Hlt Hin Hr0 Ht.
  pose proof (I_cnt _ _ _ _ I t b) as Hcn.
  pose proof (in_chan_inflight g a b t Hin) as Hi.
  unfold counted in Hcn. rewrite Hx in Hcn. rewrite <- Ht, N.eqb_refl, Hr0 in Hcn. cbn in Hcn.
  rewrite <- voters_length in Hcn.
  pose proof (R_node _ _ _ _ _ _ RR b x Hx Hlt) as RN.
  destruct (Rn_votes _ _ _ _ _ RN Hr0) as [Hlen Hself].
  destruct (pigeon (voters gh t b) (M.votesFrom (M.nodes s (n2 b)))) as (v & Hv & Hnv).
  - apply voters_NoDup. apply (I_key _ _ _ _ I).
  - lia.
  - exists (n2 v). split; auto. apply voters_In in Hv.
    destruct (R_gh _ _ _ _ _ _ RR t v b Hv) as [_ Hvote]. apply Hvote.
    intros ->. contradiction.
Qed.

(* the global relation after a step of voter n whose handler was simulated *)
Lemma R_finish g g0 gh gh' st s s' n x (S : Node.S) :
  Inv V g gh st -> R g gh st s -> KS.kreachable V' s -> KS.kreachable V' s' ->
  aget n (nodes g) = Some x -> n < RO_BASE -> In n st ->
  nodes g0 = nodes g -> (forall a b m, In m (chan_get a b g0) -> In m (chan_get a b g)) ->
  ksn (n2 n) s s' -> LS n s' S ->
  (forall en o l, In (en, o, l) (recv_t (nd S)) -> legit c s' en) ->
  (forall t v cd, In (t, v, cd) (grants gh') ->
     In (t, v, cd) (grants gh) \/ (v = n /\ In (Send cd (ResponseVote t)) (outs S)) \/
     (v = n /\ cd = n /\ t = term (nd S) /\ voted (nd S) = Some n)) ->
  R (finish n S g0) gh' st s'.
Proof.
  intros I RR HR HR' Hx Hlt Hst En Hch K L Hrecv Hgh.
  pose proof (ksn_ext _ _ _ _ K) as E.
  destruct (finish_nodes n S g0) as [Nf _]. rewrite En in Nf.
  constructor.
  - intros v y Hy Hv. rewrite Nf, ProofsElectionBase.aget_aset in Hy.
    destruct (v =? n) eqn:Ev.
    + apply N.eqb_eq in Ev. subst v. injection Hy as <-. apply (LS_n _ _ _ _ _ L).
    + apply N.eqb_neq in Ev. eapply Rn_mono; [exact HR|exact K|lia|]. apply (R_node _ _ _ _ _ _ RR v y Hy Hv).
  - intros v Hv Hnst. rewrite (ext_nodes _ _ _ E).
    + apply (R_init _ _ _ _ _ _ RR v Hv Hnst).
    + intros Heq. assert (v = n) by lia. subst. contradiction.
  - intros a b m Hm. apply finish_chan in Hm as [Hm|[-> Hm]].
    + eapply Rmsg_mono; [exact HR|exact K|]. apply (R_msg _ _ _ _ _ _ RR a b m). auto.
    + apply (LS_o _ _ _ _ _ L b m Hm).
  - intros t v cd Hin. apply Hgh in Hin as [Hin|[[-> Hin]|(-> & -> & -> & Hvd)]].
    + destruct (R_gh _ _ _ _ _ _ RR t v cd Hin) as [A B]. split.
      * apply (ext_grants _ _ _ E). exact A.
      * intros Hne. apply (ext_net _ _ _ E). auto.
    + destruct (LS_o _ _ _ _ _ L cd (ResponseVote t) Hin) as [_ Hvote].
      split; [|intros _; exact Hvote].
      apply (S2.I2_vote _ _ (S2.inv2_kreachable V' s' HR')). exact Hvote.
    + split; [|intros Hne; contradiction].
      apply (Rn_self _ _ _ _ _ (LS_n _ _ _ _ _ L) Hvd).
  - intros v y Hy Hv. rewrite Nf, ProofsElectionBase.aget_aset in Hy.
    destruct (v =? n) eqn:Ev.
    + injection Hy as <-. apply (LS_h _ _ _ _ _ L).
    + apply (R_hyg _ _ _ _ _ _ RR v y Hy Hv).
  - intros v y Hy Hv. rewrite Nf, ProofsElectionBase.aget_aset in Hy.
    destruct (v =? n) eqn:Ev.
    + apply N.eqb_eq in Ev. lia.
    + apply (R_ro _ _ _ _ _ _ RR v y Hy Hv).
  - intros v y en o l Hy Hv Hin. rewrite Nf, ProofsElectionBase.aget_aset in Hy.
    destruct (v =? n) eqn:Ev.
    + injection Hy as <-. eapply Hrecv; eauto.
    + eapply legit_kstar; [exact HR|eapply ksn_kstar; exact K|]. eapply (R_recv _ _ _ _ _ _ RR v y); eauto.
Qed.

(* the global relation when only L1 bookkeeping changed: same abstract state *)
Lemma R_shrink g g' gh st st' s :
  R g gh st s ->
  (forall v y, aget v (nodes g') = Some y -> v < RO_BASE -> Rn v y s) ->
  (forall v y, aget v (nodes g') = Some y -> v < RO_BASE -> Hn y) ->
  (forall v y, aget v (nodes g') = Some y -> RO_BASE <= v -> Hr y) ->
  (forall v y en o l, aget v (nodes g') = Some y -> v < RO_BASE -> In (en, o, l) (recv_t y) -> legit c s en) ->
  (forall a b m, In m (chan_get a b g') -> In m (chan_get a b g)) ->
  incl st st' -> R g' gh st' s.
Proof.
  intros RR Hn1 Hh Hro Hrc Hch Hst. constructor; auto.
  - intros v Hv Hnst. apply (R_init _ _ _ _ _ _ RR v Hv). intros H. apply Hnst. apply Hst. exact H.
  - intros a b m Hm. apply (R_msg _ _ _ _ _ _ RR a b m). auto.
  - apply (R_gh _ _ _ _ _ _ RR).
Qed.

End Global.
