(* Tier C6, part 6: non-vacuity.  The C01 capstone instantiated on the runs of Refine5Example:
   run A (three voters; election of node 1; commands 7 and 8 committed; node 1 compacts its log at index 3
   and brings node 2 up to date with a snapshot that node 2 installs, keeping its log; node 3 applies the
   same entries from its log) and run B (node 2 has nothing: its log is replaced by the snapshot's two
   entries and its user state is the one the snapshot carries). *)
From Coq Require Import ZArith NArith List Bool Lia.
From RecordUpdate Require Import RecordSet.
From PSO Require Import Raft.Types Raft.Node Raft.Net Raft.Obs Raft.ProofsApplyBase.
From PSO Require Import Raft.ProofsElectionGhost Raft.RefineAbs Raft.Refine5Abs Raft.Refine5Main Raft.Refine5Final.
From PSO Require Import Raft.Refine5Example Raft.Refine6Final.
Import ListNotations.
Import RecordSetNotations.
Open Scope N_scope.

(* reading the theorem at a moment where [applied] is known *)
Lemma at_moment c sigma evs :
  (forall evs1 evs2 g x n, evs = evs1 ++ evs2 -> run_trace c ginit evs1 = Some g ->
     aget x (nodes g) = Some n -> x < RO_BASE ->
     exists k, hist n = replay (firstn k sigma) /\ N.of_nat k + 1 = applied n) ->
  forall evs1 evs2 g x n (a : nat), evs = evs1 ++ evs2 -> run_trace c ginit evs1 = Some g ->
    aget x (nodes g) = Some n -> x < RO_BASE -> applied n = N.of_nat a + 1 ->
    hist n = replay (firstn a sigma).
Proof.
  intros H evs1 evs2 g x n a E R Hx Hlt Ea.
  destruct (H evs1 evs2 g x n E R Hx Hlt) as (k & Hk & Ek).
  assert (k = a) by lia. subst. exact Hk.
Qed.

(* run A, at its end: one sequence sigma explains the three user states; node 1 has compacted its log,
   node 2 has installed a snapshot *)
Example t6A_one_sequence :
  exists sigma g n1 n2 n3,
    run_trace t5_conf ginit t5_traceA = Some g /\
    aget 1 (nodes g) = Some n1 /\ aget 2 (nodes g) = Some n2 /\ aget 3 (nodes g) = Some n3 /\
    (hist n1, applied n1, first_idx (log n1)) = ([7; 8], 4, 2) /\
    (hist n2, applied n2, first_idx (log n2)) = ([7], 3, 2) /\
    (hist n3, applied n3, first_idx (log n3)) = ([7], 3, 1) /\
    (exists sn, stored (sr n2) = Some (Good sn) /\ s_hist sn = [7] /\ eidx (s_e1 sn) = 3) /\
    hist n1 = replay (firstn 3 sigma) /\ hist n2 = replay (firstn 2 sigma) /\ hist n3 = replay (firstn 2 sigma).
Proof.
  destruct t5A_in_fragment as (A & C & D & E).
  destruct (TierC6_one_common_sequence t5_conf t5_V t5_traceA A C D E) as (sigma & H).
  pose proof (at_moment t5_conf sigma t5_traceA H t5_traceA [] ) as M.
  exists sigma. do 4 eexists.
  split; [vm_compute; reflexivity|]. split; [vm_compute; reflexivity|]. split; [vm_compute; reflexivity|].
  split; [vm_compute; reflexivity|].
  split; [vm_compute; reflexivity|]. split; [vm_compute; reflexivity|]. split; [vm_compute; reflexivity|].
  split; [eexists; split; [vm_compute; reflexivity|split; reflexivity]|].
  split; [|split].
  - eapply (M _ 1 _ 3%nat); [symmetry; apply app_nil_r|vm_compute; reflexivity|vm_compute; reflexivity|reflexivity|reflexivity].
  - eapply (M _ 2 _ 2%nat); [symmetry; apply app_nil_r|vm_compute; reflexivity|vm_compute; reflexivity|reflexivity|reflexivity].
  - eapply (M _ 3 _ 2%nat); [symmetry; apply app_nil_r|vm_compute; reflexivity|vm_compute; reflexivity|reflexivity|reflexivity].
Qed.

(* the same sigma at an EARLIER moment of run A (after the boot phase: only entry 3 = command 7 is
   committed, node 1 has applied it) *)
Example t6A_earlier_moment :
  exists sigma,
    (exists g n1, run_trace t5_conf ginit t5_traceA = Some g /\ aget 1 (nodes g) = Some n1 /\
                  hist n1 = [7; 8] /\ hist n1 = replay (firstn 3 sigma)) /\
    (exists g n1, run_trace t5_conf ginit t5_boot = Some g /\ aget 1 (nodes g) = Some n1 /\
                  hist n1 = [7] /\ hist n1 = replay (firstn 2 sigma)).
Proof.
  destruct t5A_in_fragment as (A & C & D & E).
  destruct (TierC6_one_common_sequence t5_conf t5_V t5_traceA A C D E) as (sigma & H).
  exists sigma. split.
  - do 2 eexists. split; [vm_compute; reflexivity|]. split; [vm_compute; reflexivity|].
    split; [vm_compute; reflexivity|].
    eapply (at_moment t5_conf sigma t5_traceA H t5_traceA [] _ 1 _ 3%nat);
      [symmetry; apply app_nil_r|vm_compute; reflexivity|vm_compute; reflexivity|reflexivity|reflexivity].
  - do 2 eexists. split; [vm_compute; reflexivity|]. split; [vm_compute; reflexivity|].
    split; [vm_compute; reflexivity|].
    eapply (at_moment t5_conf sigma t5_traceA H t5_boot _ _ 1 _ 2%nat);
      [reflexivity|vm_compute; reflexivity|vm_compute; reflexivity|reflexivity|reflexivity].
Qed.

(* run B: node 2's log was replaced by the snapshot's two entries; its state is the snapshot's, and the
   stored snapshot itself is explained by sigma *)
Example t6B_one_sequence :
  exists sigma g n1 n2,
    run_trace t5_conf ginit t5_traceB = Some g /\
    aget 1 (nodes g) = Some n1 /\ aget 2 (nodes g) = Some n2 /\
    (hist n1, applied n1) = ([7; 8], 4) /\ (hist n2, applied n2, first_idx (log n2)) = ([7], 3, 2) /\
    hist n1 = replay (firstn 3 sigma) /\ hist n2 = replay (firstn 2 sigma) /\
    (forall sn, stored (sr n2) = Some (Good sn) ->
       exists k, s_hist sn = replay (firstn k sigma) /\ N.of_nat k + 1 = eidx (s_e1 sn)).
Proof.
  destruct t5B_in_fragment as (A & C & D & E).
  destruct (TierC6_one_common_sequence_snapshots t5_conf t5_V t5_traceB A C D E) as (sigma & H).
  assert (H' : forall evs1 evs2 g x n, t5_traceB = evs1 ++ evs2 -> run_trace t5_conf ginit evs1 = Some g ->
     aget x (nodes g) = Some n -> x < RO_BASE ->
     exists k, hist n = replay (firstn k sigma) /\ N.of_nat k + 1 = applied n).
  { intros evs1 evs2 g x n E1 R Hx Hlt. apply (H evs1 evs2 g x n E1 R Hx Hlt). }
  pose proof (at_moment t5_conf sigma t5_traceB H' t5_traceB []) as M.
  exists sigma. do 3 eexists.
  split; [vm_compute; reflexivity|]. split; [vm_compute; reflexivity|]. split; [vm_compute; reflexivity|].
  split; [vm_compute; reflexivity|]. split; [vm_compute; reflexivity|].
  split; [|split].
  - eapply (M _ 1 _ 3%nat); [symmetry; apply app_nil_r|vm_compute; reflexivity|vm_compute; reflexivity|reflexivity|reflexivity].
  - eapply (M _ 2 _ 2%nat); [symmetry; apply app_nil_r|vm_compute; reflexivity|vm_compute; reflexivity|reflexivity|reflexivity].
  - eapply (H t5_traceB [] _ 2 _); [symmetry; apply app_nil_r|vm_compute; reflexivity|vm_compute; reflexivity|reflexivity].
Qed.
