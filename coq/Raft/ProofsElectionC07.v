(* C03/C07, part 8: term monotonicity (any configuration), the justification of the ghost
   self-vote, examples, and the refutations for restarted journaled voters (term and vote are
   not persisted: init_from_disk starts with term 0, voted None). *)
From Coq Require Import ZArith NArith List Bool Lia.
From RecordUpdate Require Import RecordSet.
From PSO Require Import Raft.Types Raft.Node Raft.Net Raft.Obs Raft.ProofsElectionBase
  Raft.ProofsElectionFrame Raft.ProofsElectionFrame2 Raft.ProofsElectionStep Raft.ProofsElectionGhost
  Raft.ProofsElectionInv Raft.ProofsElectionMain.
Import ListNotations.
Import RecordSetNotations.
Open Scope N_scope.

(* ---------- the ghost self-vote is a real vote ---------- *)
Lemma tick_votes_self e x :
  term x < term (nd (on_tick e x)) ->
  exists me, self x = Some me /\ voted (nd (on_tick e x)) = Some me /\
             term (nd (on_tick e x)) = term x + 1.
Proof.
  intros Hlt. destruct (on_tick_spec e x) as [Cm|(me & A & B & C & D & _)].
  - destruct Cm as (_ & B & _). cbn in B. lia.
  - exists me. auto.
Qed.

(* ---------- term monotone: every step of a node, every configuration ---------- *)
Lemma on_tick_term e x : term x <= term (nd (on_tick e x)).
Proof.
  destruct (on_tick_spec e x) as [Cm|(me & A & B & C & _)].
  - destruct Cm as (_ & B & _). cbn in B. lia.
  - lia.
Qed.

Lemma on_message_term e from m x : term x <= term (nd (on_message e from m x)).
Proof.
  destruct (on_message_spec e from m x) as [(_ & _ & P & _)|(_ & _ & _ & P & _)]; lia.
Qed.

Lemma rel0_term e x s : rel K0 (start_S e x) s -> term (nd s) = term x.
Proof. intros H. destruct (same0_proj _ _ H) as (_ & _ & T & _). exact T. Qed.

Lemma big_term x y : big y = big x -> term y = term x.
Proof.
  intros Hb. pose proof (f_equal fst Hb) as Hc. simpl in Hc. unfold core in Hc. injection Hc; auto.
Qed.

Lemma step_term c g ev g' n s x :
  gstep c g ev = Some (g', Some (n, s)) ->
  (forall oth now rnd sv, ev <> ERestart n oth now rnd sv) ->
  aget n (nodes g) = Some x -> term x <= term (nd s).
Proof.
  intros Hstep Hnr Hx.
  destruct ev as [m now rnd bud ord sl | a b now rnd ord | a b | a b k | a b | m cm cb | m cm cb | m cm cb
                 | m | m | m oth now rnd sv]; unfold gstep in Hstep.
  - destruct (aget m (nodes g)) as [x'|] eqn:Hx'; [|discriminate].
    injection Hstep as _ <- <-. rewrite Hx in Hx'. injection Hx' as <-. apply on_tick_term.
  - destruct (aget b (nodes g)) as [x'|] eqn:Hx'; [|discriminate].
    destruct (chan_get a b g) as [|m rest]; [discriminate|].
    injection Hstep as _ <- <-. rewrite Hx in Hx'. injection Hx' as <-. apply on_message_term.
  - destruct (aget a (nodes g)) as [x'|] eqn:Hx'; [|discriminate].
    injection Hstep as _ <- <-. rewrite Hx in Hx'. injection Hx' as <-.
    cbn. rewrite (big_term _ _ (on_disconnected_big b x)). lia.
  - discriminate.
  - destruct (aget a (nodes g)) as [x'|] eqn:Hx'; [|discriminate].
    injection Hstep as _ <- <-. rewrite Hx in Hx'. injection Hx' as <-.
    cbn. rewrite (big_term _ _ (on_connected_big b x)). lia.
  - destruct (aget m (nodes g)) as [x'|] eqn:Hx'; [|discriminate].
    injection Hstep as _ <- <-. rewrite Hx in Hx'. injection Hx' as <-.
    rewrite (rel0_term _ _ _ (proj1 (api_submit_spec _ _ _ _))). lia.
  - destruct (aget m (nodes g)) as [x'|] eqn:Hx'; [|discriminate].
    injection Hstep as _ <- <-. rewrite Hx in Hx'. injection Hx' as <-.
    rewrite (rel0_term _ _ _ (proj1 (api_admin_spec _ _ _ _))). lia.
  - destruct (aget m (nodes g)) as [x'|] eqn:Hx'; [|discriminate].
    injection Hstep as _ <- <-. rewrite Hx in Hx'. injection Hx' as <-.
    rewrite (rel0_term _ _ _ (proj1 (api_setver_spec _ _ _ _))). lia.
  - destruct (aget m (nodes g)) as [x'|] eqn:Hx'; [|discriminate].
    injection Hstep as _ <- <-. rewrite Hx in Hx'. injection Hx' as <-. cbn. lia.
  - discriminate.
  - injection Hstep as _ <- _. exfalso. eapply Hnr. reflexivity.
Qed.

(* which node entries a step writes *)
Lemma gstep_nodes c g ev g' r :
  gstep c g ev = Some (g', r) ->
  nodes g' = match r with
             | Some (n, s) => aset n (nd s) (nodes g)
             | None => match ev with EKill n => adel n (nodes g) | _ => nodes g end
             end.
Proof.
  intros Hstep.
  destruct ev as [m now rnd bud ord sl | a b now rnd ord | a b | a b k | a b | m cm cb | m cm cb | m cm cb
                 | m | m | m oth now rnd sv]; unfold gstep in Hstep.
  - destruct (aget m (nodes g)); [|discriminate]. injection Hstep as <- <-. apply finish_nodes.
  - destruct (aget b (nodes g)); [|discriminate]. destruct (chan_get a b g); [discriminate|].
    injection Hstep as <- <-. apply (finish_nodes b _ (chan_set a b l g)).
  - destruct (aget a (nodes g)); [|discriminate]. injection Hstep as <- <-.
    apply (finish_nodes a _ g).
  - injection Hstep as <- <-. reflexivity.
  - destruct (aget a (nodes g)); [|discriminate]. injection Hstep as <- <-.
    match goal with |- nodes (finish a ?S ?G1) = _ =>
      destruct (finish_nodes a S G1) as [E _]; rewrite E end.
    destruct (match aget b (nodes g) with Some y => negb (smem a (tconn y)) | None => true end); reflexivity.
  - destruct (aget m (nodes g)); [|discriminate]. injection Hstep as <- <-. apply finish_nodes.
  - destruct (aget m (nodes g)); [|discriminate]. injection Hstep as <- <-. apply finish_nodes.
  - destruct (aget m (nodes g)); [|discriminate]. injection Hstep as <- <-. apply finish_nodes.
  - destruct (aget m (nodes g)); [|discriminate]. injection Hstep as <- <-. apply finish_nodes.
  - injection Hstep as <- <-. cbn.
    destruct (aget m (nodes g)); [destruct (disk_of c n)|]; reflexivity.
  - injection Hstep as <- <-. reflexivity.
Qed.

Definition no_restart_of (n : nid) (evs : list event) : bool :=
  forallb (fun ev => match ev with ERestart m _ _ _ _ => negb (m =? n) | _ => true end) evs.

Lemma gstep_sorted c g ev g' r : gstep c g ev = Some (g', r) -> ksorted (nodes g) -> ksorted (nodes g').
Proof.
  intros Hstep Hs. rewrite (gstep_nodes _ _ _ _ _ Hstep).
  destruct r as [[n s]|]; [apply ksorted_aset; auto|].
  destruct ev; auto. apply ksorted_adel; auto.
Qed.

Lemma run_sorted c evs : forall g g', run_trace c g evs = Some g' -> ksorted (nodes g) -> ksorted (nodes g').
Proof.
  induction evs as [|ev r IH]; simpl; intros g g' H Hs.
  - injection H as <-. auto.
  - destruct (gstep c g ev) as [[g1 res]|] eqn:E; [|discriminate].
    eapply IH; eauto. eapply gstep_sorted; eauto.
Qed.

(* the term of node n, as far as it is running, never falls below T *)
Definition term_ge (n : nid) (T : N) (g : gstate) : Prop :=
  forall y, aget n (nodes g) = Some y -> T <= term y.

Lemma gstep_keeps c g ev g' r n T :
  gstep c g ev = Some (g', r) -> ksorted (nodes g) ->
  match ev with ERestart m _ _ _ _ => negb (m =? n) | _ => true end = true ->
  (aget n (nodes g) = None -> aget n (nodes g') = None) /\
  (term_ge n T g -> aget n (nodes g) <> None -> term_ge n T g').
Proof.
  intros Hstep Hs Hnr. pose proof (gstep_nodes _ _ _ _ _ Hstep) as En. unfold term_ge.
  destruct r as [[m s]|].
  - rewrite En. destruct (N.eq_dec m n) as [->|Hne].
    + assert (Hnr' : forall oth now rnd sv, ev <> ERestart n oth now rnd sv).
      { intros oth now rnd sv ->. rewrite N.eqb_refl in Hnr. discriminate. }
      split.
      * intros Hnone. exfalso.
        (* a step of n needs n to be running, unless it is a restart *)
        destruct ev as [m now rnd bud ord sl | a b now rnd ord | a b | a b k | a b | m cm cb | m cm cb | m cm cb
                       | m | m | m oth now rnd sv]; unfold gstep in Hstep;
          try (destruct (aget m (nodes g)) eqn:E; [|discriminate]; injection Hstep as _ Em _; subst m; congruence);
          try discriminate.
        -- destruct (aget b (nodes g)) eqn:E; [|discriminate]. destruct (chan_get a b g); [discriminate|].
           injection Hstep as _ Em _; subst b; congruence.
        -- destruct (aget a (nodes g)) eqn:E; [|discriminate]. injection Hstep as _ Em _; subst a; congruence.
        -- destruct (aget a (nodes g)) eqn:E; [|discriminate]. injection Hstep as _ Em _; subst a; congruence.
        -- injection Hstep as _ Em _. subst m. eapply Hnr'. reflexivity.
      * intros Hge Hrun y. rewrite aget_aset, N.eqb_refl. intros H; injection H as <-.
        destruct (aget n (nodes g)) as [x|] eqn:Hx; [|congruence].
        pose proof (step_term c g ev g' n s x Hstep Hnr' Hx). specialize (Hge x eq_refl). lia.
    + split.
      * intros H. rewrite aget_aset. destruct (n =? m) eqn:E; [apply N.eqb_eq in E; congruence|auto].
      * intros Hge _ y. rewrite aget_aset. destruct (n =? m) eqn:E; [apply N.eqb_eq in E; congruence|].
        apply Hge.
  - rewrite En. destruct ev; try (split; auto; fail).
    destruct (N.eq_dec n0 n) as [->|Hne].
    + split; [intros; apply aget_adel_same; auto|].
      intros Hge Hrun y. rewrite aget_adel_same; auto. discriminate.
    + split; [intros H0; rewrite aget_adel_neq; auto|].
      intros Hge Hrun y. rewrite aget_adel_neq; auto.
Qed.

Lemma run_term_ge c n T evs : forall g g',
  run_trace c g evs = Some g' -> ksorted (nodes g) -> no_restart_of n evs = true ->
  (aget n (nodes g) = None -> aget n (nodes g') = None) /\
  (term_ge n T g -> aget n (nodes g) <> None -> term_ge n T g').
Proof.
  induction evs as [|ev r IH]; simpl; intros g g' H Hs Hnr.
  - injection H as <-. auto.
  - destruct (gstep c g ev) as [[g1 res]|] eqn:E; [|discriminate].
    apply andb_true_iff in Hnr as [H1 H2].
    destruct (gstep_keeps c g ev g1 res n T E Hs H1) as [A B].
    destruct (IH g1 g' H (gstep_sorted _ _ _ _ _ E Hs) H2) as [A' B'].
    split; [auto|].
    intros Hge Hrun. destruct (aget n (nodes g1)) eqn:E1.
    + apply B'; [apply B; auto | congruence].
    + intros y Hy. rewrite (A' eq_refl) in Hy. discriminate.
Qed.

Lemma term_monotone_run c evs1 evs2 g1 g2 n x y :
  run_trace c ginit evs1 = Some g1 -> run_trace c g1 evs2 = Some g2 ->
  no_restart_of n evs2 = true ->
  aget n (nodes g1) = Some x -> aget n (nodes g2) = Some y -> term x <= term y.
Proof.
  intros H1 H2 Hnr Hx Hy.
  assert (Hs : ksorted (nodes g1)) by (eapply run_sorted; eauto; exact I).
  destruct (run_term_ge c n (term x) evs2 g1 g2 H2 Hs Hnr) as [_ B].
  apply B; auto.
  - intros z Hz. rewrite Hx in Hz. injection Hz as <-. lia.
  - congruence.
Qed.

(* ---------- C03: the staged full statement of leader completeness (NOT proved) ---------- *)
Definition holds (n : node) (en : entry) : Prop :=
  (exists e', In e' (log n) /\ entry_eqb e' en = true) \/ eidx en < first_idx (log n).

Definition C03_leader_completeness_full : Prop :=
  forall c V evs1 evs2 g1 g2 a b x y en,
    dyn c = false -> file_dump c = false -> valid V (evs1 ++ evs2) = true ->
    run_trace c ginit evs1 = Some g1 -> run_trace c g1 evs2 = Some g2 ->
    aget a (nodes g1) = Some x -> In en (log x) -> eidx en <= commit x ->
    aget b (nodes g2) = Some y -> role y = LEADER -> eterm en < term y ->
    holds y en.

(* ---------- theorem forms used by Props ---------- *)
Lemma election_safety_run c V evs g :
  dyn c = false -> file_dump c = false -> valid V evs = true ->
  run_trace c ginit evs = Some g ->
  exists gh, grun c ginit gh0 evs = Some (g, gh) /\
    forall t a b, In (t, a) (wins gh) -> In (t, b) (wins gh) -> a = b.
Proof.
  intros Hd Hf Hv Hr. apply (grun_run_trace c ginit gh0 evs g) in Hr as [gh Hg].
  exists gh. split; auto. eapply election_safety; eauto.
Qed.

Lemma vote_once_run c V evs g :
  dyn c = false -> file_dump c = false -> valid V evs = true ->
  run_trace c ginit evs = Some g ->
  exists gh, grun c ginit gh0 evs = Some (g, gh) /\
    forall t v c1 c2, In (t, v, c1) (grants gh) -> In (t, v, c2) (grants gh) -> c1 = c2.
Proof.
  intros Hd Hf Hv Hr. apply (grun_run_trace c ginit gh0 evs g) in Hr as [gh Hg].
  exists gh. split; auto. eapply vote_once; eauto.
Qed.

(* ---------- examples: the hypotheses are satisfiable by a non-trivial run ---------- *)
Definition cfg_mem : conf :=
  mkConf 10 40 128 100000 100 64 true false true 1000000000 1000000000 1000 9 false false.
Definition cfg_journal : conf :=
  mkConf 10 40 128 100000 100 64 true false true 1000000000 1000000000 1000 9 false true.

Definition boot3 : list event := [
  ERestart 1 [2;3] 0 0 0; ERestart 2 [1;3] 0 0 0; ERestart 3 [1;2] 0 0 0;
  EConnect 1 2; EConnect 2 1; EConnect 1 3; EConnect 3 1; EConnect 2 3; EConnect 3 2].

(* 1 and 2 time out together in term 1 (split vote), 3 grants 1 and refuses 2, 1 wins; a read-only
   node joins, a command is submitted, voter 3 is killed for good *)
Definition ex_valid : list event := boot3 ++ [
  ETick 1 50 0 30 [] 0; ETick 2 50 0 30 [] 0;
  EDeliver 1 3 51 0 []; EDeliver 2 3 52 0 [];
  EDeliver 3 1 53 0 [];
  EDeliver 1 2 54 0 []; EDeliver 2 1 55 0 [];
  ERestart 100 [1;2;3] 56 0 0; EConnect 100 1; EConnect 1 100;
  ESubmit 1 (mkCmd 0 7 0 1 20) 1;
  ETick 1 70 0 30 [] 0;
  EKill 3; EDrop 1 3; EDrop 2 3;
  ETick 2 200 0 30 [] 0].

Definition run_of (c : conf) (evs : list event) : gstate * ghost :=
  match grun c ginit gh0 evs with Some p => p | None => (ginit, gh0) end.

Example ex_valid_ok :
  valid [1;2;3] ex_valid = true /\
  exists g gh, grun cfg_mem ginit gh0 ex_valid = Some (g, gh) /\ wins gh = [(1, 1)] /\
               In (1, 3, 1) (grants gh) /\ In (2, 2, 2) (grants gh).
Proof.
  split; [vm_compute; reflexivity|].
  exists (fst (run_of cfg_mem ex_valid)), (snd (run_of cfg_mem ex_valid)).
  split; [vm_compute; reflexivity|]. split; [vm_compute; reflexivity|].
  split; vm_compute; auto 10.
Qed.

(* ---------- C07: what a valid schedule with restarts of journaled voters is ---------- *)
Definition ev_okj (V run : list nid) (ev : event) : bool :=
  match ev with
  | ERestart n oth _ _ _ =>
    if n <? RO_BASE then smem n V && negb (smem n run) && leqb oth (vminus n V) else true
  | _ => true
  end.

Definition run_after (run : list nid) (ev : event) : list nid :=
  match ev with
  | ERestart n _ _ _ _ => if n <? RO_BASE then n :: run else run
  | EKill n => filter (fun x => negb (x =? n)) run
  | _ => run
  end.

Fixpoint validj_from (V run : list nid) (evs : list event) : bool :=
  match evs with
  | [] => true
  | ev :: r => ev_okj V run ev && validj_from V (run_after run ev) r
  end.

(* as `valid`, but a voter that was killed may be started again (it finds its journal) *)
Definition validj (V : list nid) (evs : list event) : bool := Vok V && validj_from V [] evs.

(* KF-C07-1: voter 3 grants candidate 1 in term 1, is killed and restarted (journal on disk),
   and grants candidate 2 in term 1 as well; both candidates become leader of term 1 *)
Definition w_double : list event := boot3 ++ [
  ETick 1 50 0 30 [] 0;
  EDeliver 1 3 51 0 [];
  EDeliver 3 1 52 0 [];
  EKill 3; EDrop 1 3; EDrop 2 3;
  ERestart 3 [1;2] 60 0 0;
  EConnect 3 1; EConnect 1 3; EConnect 3 2; EConnect 2 3;
  ETick 2 70 0 30 [] 0;
  EDeliver 2 3 71 0 []].

Definition w_two_leaders : list event := w_double ++ [EDeliver 3 2 72 0 []].

Lemma restart_double_vote_refuted :
  exists c evs g gh,
    dyn c = false /\ file_dump c = false /\ file_journal c = true /\
    validj [1;2;3] evs = true /\ grun c ginit gh0 evs = Some (g, gh) /\
    exists t v c1 c2, In (t, v, c1) (grants gh) /\ In (t, v, c2) (grants gh) /\ c1 <> c2.
Proof.
  exists cfg_journal, w_double, (fst (run_of cfg_journal w_double)), (snd (run_of cfg_journal w_double)).
  split; [reflexivity|]. split; [reflexivity|]. split; [reflexivity|].
  split; [vm_compute; reflexivity|]. split; [vm_compute; reflexivity|].
  exists 1, 3, 1, 2.
  split; [vm_compute; auto 10|]. split; [vm_compute; auto 10|]. discriminate.
Qed.

Lemma two_leaders_after_restart_refuted :
  exists c evs g gh,
    dyn c = false /\ file_dump c = false /\ file_journal c = true /\
    validj [1;2;3] evs = true /\ grun c ginit gh0 evs = Some (g, gh) /\
    exists t a b, In (t, a) (wins gh) /\ In (t, b) (wins gh) /\ a <> b.
Proof.
  exists cfg_journal, w_two_leaders,
    (fst (run_of cfg_journal w_two_leaders)), (snd (run_of cfg_journal w_two_leaders)).
  split; [reflexivity|]. split; [reflexivity|]. split; [reflexivity|].
  split; [vm_compute; reflexivity|]. split; [vm_compute; reflexivity|].
  exists 1, 1, 2.
  split; [vm_compute; auto 10|]. split; [vm_compute; auto 10|]. discriminate.
Qed.

(* KF-C07-2: voter 3 votes in term 2 (acknowledging term 2), is killed and restarted, and then
   accepts append_entries of the term-1 leader: it appends the entry and answers success *)
Definition w_older_a : list event := boot3 ++ [
  ETick 1 50 0 30 [] 0;
  EDeliver 1 3 51 0 [];
  EDeliver 3 1 52 0 [];
  ETick 2 60 0 30 [] 0;
  ETick 2 110 0 30 [] 0;
  EDeliver 2 3 111 0 [];
  EDeliver 2 3 112 0 []].

Definition w_older_b : list event := [
  EKill 3; EDrop 1 3; EDrop 2 3;
  ERestart 3 [1;2] 120 0 0;
  EConnect 3 1; EConnect 1 3; EConnect 3 2; EConnect 2 3;
  ETick 1 130 0 30 [] 0;
  EDeliver 1 3 131 0 [];
  EDeliver 3 1 132 0 [];
  ETick 1 145 0 30 [] 0].

Definition og1 : gstate :=
  match run_trace cfg_journal ginit w_older_a with Some g => g | None => ginit end.
Definition og2 : gstate :=
  match run_trace cfg_journal og1 w_older_b with Some g => g | None => ginit end.
Definition ores : gstate * S :=
  match gstep cfg_journal og2 (EDeliver 1 3 146 0 []) with
  | Some (g, Some (_, s)) => (g, s)
  | _ => (ginit, idle_S (init_node (mk_env cfg_journal 0 0 0 [] 0) None [] 0))
  end.
Definition ox : node :=
  match aget 3 (nodes og1) with Some x => x | None => init_node (mk_env cfg_journal 0 0 0 [] 0) None [] 0 end.

Lemma follows_older_term_refuted :
  exists c evs1 evs2 g1 g2 g3 x s tl cm pv es,
    dyn c = false /\ file_dump c = false /\ file_journal c = true /\
    validj [1;2;3] (evs1 ++ evs2 ++ [EDeliver 1 3 146 0 []]) = true /\
    run_trace c ginit evs1 = Some g1 /\ aget 3 (nodes g1) = Some x /\
    run_trace c g1 evs2 = Some g2 /\
    hd_error (chan_get 1 3 g2) = Some (AE tl cm pv es) /\
    gstep c g2 (EDeliver 1 3 146 0 []) = Some (g3, Some (3, s)) /\
    tl < term x /\ term (nd s) = tl /\ leader (nd s) = Some 1 /\
    In (Send 1 (NextIdx tl 3 false true)) (outs s).
Proof.
  exists cfg_journal, w_older_a, w_older_b, og1, og2, (fst ores), ox, (snd ores),
    1, 1, (Some (1, 0)), [mkEntry (noop_cmd 9) 2 1].
  split; [reflexivity|]. split; [reflexivity|]. split; [reflexivity|].
  split; [vm_compute; reflexivity|]. split; [vm_compute; reflexivity|].
  split; [vm_compute; reflexivity|]. split; [vm_compute; reflexivity|].
  split; [vm_compute; reflexivity|]. split; [vm_compute; reflexivity|].
  split; [vm_compute; reflexivity|]. split; [vm_compute; reflexivity|].
  split; [vm_compute; reflexivity|]. vm_compute. auto.
Qed.

(* term monotonicity: a non-trivial instance of the hypotheses *)
Definition ex_mono1 : list event := boot3 ++ [ETick 1 50 0 30 [] 0].
Definition ex_mono2 : list event := [EDeliver 1 2 60 0 []; ETick 1 200 0 30 [] 0; EKill 2].
Definition em1 : gstate := match run_trace cfg_mem ginit ex_mono1 with Some g => g | None => ginit end.
Definition em2 : gstate := match run_trace cfg_mem em1 ex_mono2 with Some g => g | None => ginit end.

Example ex_term_monotone :
  run_trace cfg_mem ginit ex_mono1 = Some em1 /\ run_trace cfg_mem em1 ex_mono2 = Some em2 /\
  no_restart_of 1 ex_mono2 = true /\
  option_map term (aget 1 (nodes em1)) = Some 1 /\ option_map term (aget 1 (nodes em2)) = Some 2.
Proof. repeat (split; [vm_compute; reflexivity|]). vm_compute; reflexivity. Qed.
