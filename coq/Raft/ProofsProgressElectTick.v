(* C05, elections resolve, part 2: the tick at the election deadline.  A follower or candidate whose
   deadline has passed becomes candidate of the next term and puts exactly one RequestVote on the
   wire for every other member its transport is connected to (C05_candidate_start); alone in its
   cluster it is leader at once. *)
From Coq Require Import ZArith NArith List Bool Lia.
From RecordUpdate Require Import RecordSet.
From PSO Require Import Raft.Types Raft.Node Raft.Net Raft.ProofsSnapshotBase Raft.ProofsCommitBase
  Raft.ProofsProgressElectBase.
Import ListNotations.
Import RecordSetNotations.
Open Scope N_scope.

(* journal replay is over: membership entries no longer take effect when applied *)
Definition replay_done (n : node) : Prop := replay_idx n <= applied n.

(* the RequestVote a node sends when it stands for election now, and to whom *)
Definition rv_of (n : node) : msg := RequestVote (term n + 1) (last_idx (log n)) (last_term (log n)).
Definition rv_targets (n : node) : list nid := filter (fun y => smem y (tconn n)) (others n).

(* what a tick at the deadline leaves alone *)
Definition kp (n : node) :=
  (self n, others n, readonly n, connected n, tconn n, role n, term n, voted n, votes n, leader n).
Definition kq (n : node) := (kp n, log n, sr n, queue n, replay_idx n).

Definition relE (s s' : S) : Prop :=
  kq (nd s') = kq (nd s) /\ wire (outs s') = wire (outs s) /\ applied (nd s) <= applied (nd s').

Lemma relE_refl s : relE s s.
Proof. unfold relE. repeat split; auto. lia. Qed.

Lemma relE_trans a b c : relE a b -> relE b c -> relE a c.
Proof. unfold relE. intros (A1 & A2 & A3) (B1 & B2 & B3). repeat split; try congruence. lia. Qed.

Lemma relE_replay s s' : relE s s' -> replay_done (nd s) -> replay_done (nd s').
Proof.
  unfold relE, replay_done, kq. intros (A1 & _ & A3) R.
  assert (E : replay_idx (nd s') = replay_idx (nd s)) by (injection A1; auto). lia.
Qed.

(* ---------- outputs of the small helpers ---------- *)
Lemma wire_fire c r er s : wire (outs (fire c r er s)) = wire (outs s).
Proof. destruct c; cbn; auto. rewrite wire_app. cbn. apply app_nil_r. Qed.

Lemma fold_fire_E {A} (f : S -> A -> S) l s :
  (forall s a, nd (f s a) = nd s /\ wire (outs (f s a)) = wire (outs s)) ->
  nd (fold_left f l s) = nd s /\ wire (outs (fold_left f l s)) = wire (outs s).
Proof.
  intros H. revert s. induction l as [|a l IH]; intros s; cbn; auto.
  destruct (IH (f s a)) as [I1 I2]. destruct (H s a) as [H1 H2]. split; congruence.
Qed.

(* ---------- apply_entries ---------- *)
Lemma do_apply_E c s : replay_done (nd s) ->
  kq (nd (fst (do_apply c s))) = kq (nd s) /\ outs (fst (do_apply c s)) = outs s /\
  applied (nd (fst (do_apply c s))) = applied (nd s).
Proof.
  intros R. unfold do_apply.
  destruct (ck c =? 3).
  - destruct (self_ver (nd s) <? ca c); cbn; auto.
  - destruct (membership_of c) as [[a x]|].
    + destruct (applied (nd s) <? replay_idx (nd s)) eqn:E; [|cbn; auto].
      apply N.ltb_lt in E. unfold replay_done in R. lia.
    + destruct (ck c =? 0); [|cbn; auto]. destruct (cb c =? 1); cbn; auto.
Qed.

Lemma apply_one_E en s : replay_done (nd s) -> relE s (fst (apply_one en s)).
Proof.
  intros R. unfold apply_one.
  set (s1 := upd (fun n => n <| wait_commit := adel (eidx en) (wait_commit n) |>) s).
  assert (R1 : replay_done (nd s1)) by exact R.
  destruct (do_apply_E (ecmd en) s1 R1) as (D1 & D2 & D3).
  destruct (do_apply (ecmd en) s1) as [s2 ar]. cbn [fst] in D1, D2, D3.
  assert (E2 : relE s s2).
  { unfold relE. rewrite D1, D2, D3. subst s1. cbn. repeat split; auto. lia. }
  assert (Hfold : forall r,
    relE s (upd (fun n => n <| applied := applied n + 1 |>)
              (fold_left (fun s tc => if fst tc =? eterm en then fire (snd tc) r SUCCESS s
                                      else fire (snd tc) 0 DISCARDED s)
                 (match aget (eidx en) (wait_commit (nd s)) with Some l => l | None => [] end) s2))).
  { intros r.
    match goal with |- relE s (upd _ (fold_left ?f ?l s2)) =>
      destruct (fold_fire_E f l s2) as [F1 F2] end.
    { intros s0 a. destruct (fst a =? eterm en); split; try apply nd_fire; apply wire_fire. }
    destruct E2 as (A1 & A2 & A3). unfold relE.
    match goal with |- context [fold_left ?f ?l s2] => set (s3 := fold_left f l s2) in * end.
    change (kq (nd s3 <| applied := applied (nd s3) + 1 |>) = kq (nd s) /\ wire (outs s3) = wire (outs s) /\
            applied (nd s) <= applied (nd s3) + 1).
    rewrite F2. split; [|split; [exact A2|rewrite F1; lia]].
    rewrite <- A1, <- F1. reflexivity. }
  destruct ar; cbn [fst]; auto.
Qed.

Lemma apply_list_E es : forall s, replay_done (nd s) -> relE s (apply_list es s).
Proof.
  induction es as [|en es IH]; intros s R; cbn; [apply relE_refl|].
  pose proof (apply_one_E en s R) as H1.
  destruct (apply_one en s) as [s1 go]. cbn [fst] in H1.
  destruct go; auto. eapply relE_trans; [exact H1|]. apply IH. eapply relE_replay; eauto.
Qed.

Lemma apply_entries_E e s : replay_done (nd s) -> relE s (fst (apply_entries e s)).
Proof.
  intros R. unfold apply_entries. destruct (applied (nd s) <? commit (nd s)); cbn [fst].
  - apply apply_list_E; auto.
  - apply relE_refl.
Qed.

(* ---------- the other phases ---------- *)
Lemma tick_ready_E s : relE s (tick_ready s).
Proof. unfold tick_ready. destruct (_ && _); [|apply relE_refl]. unfold relE. cbn. repeat split; auto. lia. Qed.

Lemma check_commands_idle e s :
  (queue (nd s) = [] \/ (leader (nd s) = None /\ wait_leader (cf e) = true)) -> check_commands e s = s.
Proof.
  intros H. unfold check_commands. cbn [check_loop].
  destruct (_ <? _)%Z; auto.
  destruct H as [H|[H1 H2]].
  - rewrite H. destruct (leader (nd s)); destruct (wait_leader (cf e)); reflexivity.
  - rewrite H1, H2. reflexivity.
Qed.

Lemma try_compact_E e s :
  kp (nd (try_compact e s)) = kp (nd s) /\ outs (try_compact e s) = outs s /\
  (log (nd (try_compact e s)) = log (nd s) \/
   (pid (sr (nd s)) = 1 /\ log (nd (try_compact e s)) = delete_to (log (nd s)) (cur_id (sr (nd s))))).
Proof.
  unfold try_compact. cbv zeta.
  destruct (pid (sr (nd s)) =? 0) eqn:E0.
  - apply N.eqb_eq in E0. rewrite E0. cbn [N.eqb negb].
    destruct (_ && _); [auto|].
    destruct (get_entries _ _ _ _) as [|e0 [|e1 r]];
      try (match goal with |- context [opt_eqb ?a ?b] => destruct (opt_eqb a b) end); cbn; auto.
  - cbn [negb].
    destruct (pid (sr (nd s)) =? 1) eqn:E1; cbn; auto.
    apply N.eqb_eq in E1. split; auto.
Qed.

(* ---------- the RequestVote fan-out ---------- *)
Lemma fold_send_spec m l : forall s,
  let s' := fold_left (fun s x => send x m s) l s in
  nd s' = nd s /\ exc s' = exc s /\ tnow s' = tnow s /\
  outs s' = outs s ++ map (fun y => Send y m) (filter (fun y => smem y (tconn (nd s))) l).
Proof.
  induction l as [|y l IH]; intros s; cbn [fold_left filter map].
  - rewrite app_nil_r. auto.
  - destruct (IH (send y m s)) as (I1 & I2 & I3 & I4). cbv zeta.
    rewrite I1, I2, I3, I4, nd_send, exc_send, tnow_send.
    repeat split; auto.
    unfold send. destruct (smem y (tconn (nd s))); cbn.
    + rewrite <- app_assoc. reflexivity.
    + reflexivity.
Qed.

Lemma wire_map_send (f : nid -> msg) l : wire (map (fun y => Send y (f y)) l) = map (fun y => Send y (f y)) l.
Proof. unfold wire. induction l as [|a l IH]; cbn; [reflexivity|]. rewrite IH. reflexivity. Qed.

Lemma on_leader_changed_E s :
  nd (on_leader_changed s) = (nd s) <| wait_reply := [] |> /\
  wire (outs (on_leader_changed s)) = wire (outs s) /\ exc (on_leader_changed s) = exc s.
Proof.
  unfold on_leader_changed.
  match goal with |- context [fold_left ?f ?l s] => set (F := f); set (L := l) end.
  assert (H : nd (fold_left F L s) = nd s /\ wire (outs (fold_left F L s)) = wire (outs s) /\
              exc (fold_left F L s) = exc s).
  { clearbody L. revert s. induction L as [|a L IH]; intros s; cbn; auto.
    destruct (IH (F s a)) as (I1 & I2 & I3). subst F. cbn in *.
    rewrite I1, I2, I3, nd_fire, wire_fire, exc_fire. auto. }
  destruct H as (H1 & H2 & H3). rewrite nd_upd. cbn. rewrite H1. auto.
Qed.

(* ---------- the state of a tick up to the election phase ---------- *)
Definition tick_tail (e : env) (s : S) : S :=
  let (s, need) := apply_entries e s in
  if ok s then (tick_send e need ;; tick_ready ;; check_commands e ;; try_compact e) s else s.

Lemma on_tick_unfold e n :
  on_tick e n = (tick_load e ;; tick_timer e ;; tick_election e ;; tick_leader e ;; tick_tail e) (start_S e n).
Proof. reflexivity. Qed.

Lemma tick_prefix e nx :
  need_load nx && file_dump (cf e) = false ->
  exists s2, on_tick e nx = (tick_election e ;; tick_leader e ;; tick_tail e) s2 /\
    kq (nd s2) = kq nx /\ applied (nd s2) = applied nx /\ deadline (nd s2) = deadline nx /\
    outs s2 = [] /\ exc s2 = 0 /\ tnow s2 = t0 e.
Proof.
  intros Hl. rewrite on_tick_unfold.
  set (s1 := tick_load e (start_S e nx)).
  assert (H1 : kq (nd s1) = kq nx /\ applied (nd s1) = applied nx /\ deadline (nd s1) = deadline nx /\
               outs s1 = [] /\ exc s1 = 0 /\ tnow s1 = t0 e).
  { subst s1. unfold tick_load. cbn [nd start_S]. rewrite Hl. cbn. auto 10. }
  rewrite andthen_eq. fold s1. destruct H1 as (A1 & A2 & A3 & A4 & A5 & A6).
  assert (O1 : ok s1 = true) by (unfold ok; rewrite A5; reflexivity).
  rewrite O1. rewrite andthen_eq.
  set (s2 := tick_timer e s1).
  assert (H2 : kq (nd s2) = kq nx /\ applied (nd s2) = applied nx /\ deadline (nd s2) = deadline nx /\
               outs s2 = [] /\ exc s2 = 0 /\ tnow s2 = t0 e).
  { subst s2. unfold tick_timer. destruct (_ <? _)%Z; cbn; auto 10. }
  destruct H2 as (B1 & B2 & B3 & B4 & B5 & B6).
  assert (O2 : ok s2 = true) by (unfold ok; rewrite B5; reflexivity).
  rewrite O2. exists s2. auto 10.
Qed.

(* ---------- C05_candidate_start ---------- *)
(* the election phase itself, when it fires and one vote is not a majority *)
Lemma tick_election_core e s me :
  self (nd s) = Some me ->
  (role (nd s) = FOLLOWER \/ role (nd s) = CANDIDATE) ->
  (deadline (nd s) < tnow s)%Z -> connected_to_anyone (nd s) = true ->
  exists s5,
    tick_election e s = (if majority 1 (nd s) then become_leader e s5 else s5) /\
    kq (nd s5) = ((self (nd s), others (nd s), readonly (nd s), connected (nd s), tconn (nd s),
                   CANDIDATE, term (nd s) + 1, Some me, 1, None), log (nd s), sr (nd s), queue (nd s),
                  replay_idx (nd s)) /\
    applied (nd s5) = applied (nd s) /\
    wire (outs s5) = wire (outs s) ++ map (fun y => Send y (rv_of (nd s))) (rv_targets (nd s)).
Proof.
  intros Hs Hr Hd Hc. unfold tick_election. rewrite Hs.
  assert (C : ((role (nd s) =? FOLLOWER) || (role (nd s) =? CANDIDATE)) && (deadline (nd s) <? tnow s)%Z &&
              connected_to_anyone (nd s) = true).
  { rewrite Hc. apply Z.ltb_lt in Hd. rewrite Hd. destruct Hr as [-> | ->]; reflexivity. }
  rewrite C. cbv zeta.
  match goal with |- context [on_leader_changed (fold_left _ _ ?s0)] => set (s3 := s0) end.
  match goal with |- context [on_leader_changed (fold_left ?f ?l s3)] => set (F := f); set (L := l) end.
  assert (F3 : kq (nd s3) = ((self (nd s), others (nd s), readonly (nd s), connected (nd s), tconn (nd s),
                              CANDIDATE, term (nd s) + 1, Some me, 1, None), log (nd s), sr (nd s), queue (nd s),
                             replay_idx (nd s)) /\
               applied (nd s3) = applied (nd s) /\ wire (outs s3) = wire (outs s) /\
               wait_reply (nd s3) = wait_reply (nd s)).
  { subst s3. unfold set_role. cbv zeta. cbn. destruct (role (nd s) =? CANDIDATE); cbn.
    - auto.
    - rewrite wire_app. cbn. rewrite app_nil_r. auto. }
  destruct F3 as (K3 & A3 & W3 & _).
  assert (EL : L = others (nd s)) by (subst L; unfold kq, kp in K3; injection K3; auto).
  assert (ET : tconn (nd s3) = tconn (nd s)) by (unfold kq, kp in K3; injection K3; auto).
  assert (EM : F = fun s0 x => send x (rv_of (nd s)) s0).
  { subst F. unfold rv_of.
    assert (E1 : term (nd s3) = term (nd s) + 1) by (unfold kq, kp in K3; injection K3; auto).
    assert (E2 : log (nd s3) = log (nd s)) by (unfold kq, kp in K3; injection K3; auto).
    rewrite E1, E2. reflexivity. }
  rewrite EM, EL. clear EM EL F L. clearbody s3.
  destruct (fold_send_spec (rv_of (nd s)) (others (nd s)) s3) as (S1 & S2 & S3 & S4). cbv zeta in S1, S2, S3, S4.
  set (s4 := fold_left (fun s0 x => send x (rv_of (nd s)) s0) (others (nd s)) s3) in *.
  destruct (on_leader_changed_E s4) as (L1 & L2 & L3).
  set (s5 := on_leader_changed s4) in *. clearbody s5. clearbody s4.
  assert (K5 : kq (nd s5) = kq (nd s3)) by (rewrite L1; unfold kq, kp; cbn; rewrite S1; reflexivity).
  exists s5.
  assert (M5 : majority (votes (nd s5)) (nd s5) = majority 1 (nd s)).
  { assert (E1 : votes (nd s5) = 1) by (rewrite K3 in K5; unfold kq, kp in K5; injection K5; auto).
    assert (E2 : others (nd s5) = others (nd s)) by (rewrite K3 in K5; unfold kq, kp in K5; injection K5; auto).
    rewrite E1. unfold majority in *. rewrite E2. reflexivity. }
  rewrite M5. split; [reflexivity|]. split; [congruence|]. split.
  - rewrite L1. cbn. rewrite S1. exact A3.
  - rewrite L2, S4, wire_app, W3, ET. unfold rv_targets. f_equal.
    apply (wire_map_send (fun _ => rv_of (nd s))).
Qed.

Lemma tick_election_fires e s me :
  self (nd s) = Some me ->
  (role (nd s) = FOLLOWER \/ role (nd s) = CANDIDATE) ->
  (deadline (nd s) < tnow s)%Z -> connected_to_anyone (nd s) = true ->
  majority 1 (nd s) = false ->
  let s' := tick_election e s in
  kq (nd s') = ((self (nd s), others (nd s), readonly (nd s), connected (nd s), tconn (nd s),
                 CANDIDATE, term (nd s) + 1, Some me, 1, None), log (nd s), sr (nd s), queue (nd s),
                replay_idx (nd s)) /\
  applied (nd s') = applied (nd s) /\
  wire (outs s') = wire (outs s) ++ map (fun y => Send y (rv_of (nd s))) (rv_targets (nd s)).
Proof.
  intros Hs Hr Hd Hc Hm. cbv zeta.
  destruct (tick_election_core e s me Hs Hr Hd Hc) as (s5 & E & K & A & W).
  rewrite E, Hm. auto.
Qed.

(* everything after the election phase, for a node that is not the leader and whose queue stays put *)
Definition cand_post (nx : node) (me : nid) (s : S) : Prop :=
  kp (nd s) = (self nx, others nx, readonly nx, connected nx, tconn nx, CANDIDATE, term nx + 1, Some me, 1, None) /\
  wire (outs s) = map (fun y => Send y (rv_of nx)) (rv_targets nx) /\
  (log (nd s) = log nx \/ (pid (sr nx) = 1 /\ log (nd s) = delete_to (log nx) (cur_id (sr nx)))).

Definition cand_mid (nx : node) (me : nid) (s : S) : Prop :=
  kq (nd s) = ((self nx, others nx, readonly nx, connected nx, tconn nx, CANDIDATE, term nx + 1, Some me, 1, None),
               log nx, sr nx, queue nx, replay_idx nx) /\
  wire (outs s) = map (fun y => Send y (rv_of nx)) (rv_targets nx) /\
  replay_done (nd s).

Lemma kq_inj n a b c d e :
  kq n = (a, b, c, d, e) -> kp n = a /\ log n = b /\ sr n = c /\ queue n = d /\ replay_idx n = e.
Proof. unfold kq. intros H. injection H. auto. Qed.

Lemma kp_inj n a b c d e f g h i j :
  kp n = (a, b, c, d, e, f, g, h, i, j) ->
  self n = a /\ others n = b /\ readonly n = c /\ connected n = d /\ tconn n = e /\ role n = f /\
  term n = g /\ voted n = h /\ votes n = i /\ leader n = j.
Proof. unfold kp. intros H. injection H. auto 15. Qed.

Lemma kq_kp n m : kq n = kq m ->
  self n = self m /\ others n = others m /\ readonly n = readonly m /\ connected n = connected m /\
  tconn n = tconn m /\ role n = role m /\ term n = term m /\ voted n = voted m /\ votes n = votes m /\
  leader n = leader m /\ log n = log m /\ sr n = sr m /\ queue n = queue m /\ replay_idx n = replay_idx m.
Proof. unfold kq, kp. intros H. injection H. auto 20. Qed.

Lemma cand_mid_post nx me s : cand_mid nx me s -> cand_post nx me s.
Proof.
  intros (K & W & _). unfold cand_post. apply kq_inj in K as (K1 & K2 & _).
  split; [exact K1|]. split; [exact W|]. left. exact K2.
Qed.

Lemma cand_mid_relE nx me s s' : cand_mid nx me s -> relE s s' -> cand_mid nx me s'.
Proof.
  intros (K & W & R) E. pose proof (relE_replay _ _ E R) as R'.
  destruct E as (E1 & E2 & _). unfold cand_mid. rewrite E1, E2. auto.
Qed.

Lemma tick_tail_cand e nx me s :
  (queue nx = [] \/ wait_leader (cf e) = true) ->
  cand_mid nx me s -> cand_post nx me (tick_tail e s).
Proof.
  intros Hq M. unfold tick_tail.
  pose proof M as (K & W & R).
  pose proof (apply_entries_E e s R) as E1.
  destruct (apply_entries e s) as [s1 need]. cbn [fst] in E1.
  pose proof (cand_mid_relE _ _ _ _ M E1) as M1.
  destruct (ok s1); [|apply cand_mid_post; exact M1].
  assert (Hrole : role (nd s1) = CANDIDATE).
  { destruct M1 as (K1 & _). unfold kq, kp in K1. injection K1; auto. }
  rewrite andthen_eq.
  assert (T1 : tick_send e need s1 = s1) by (unfold tick_send; rewrite Hrole; reflexivity).
  rewrite T1. destruct (ok s1); [|apply cand_mid_post; exact M1].
  rewrite andthen_eq.
  pose proof (cand_mid_relE _ _ _ _ M1 (tick_ready_E s1)) as M2.
  set (s2 := tick_ready s1) in *.
  destruct (ok s2); [|apply cand_mid_post; exact M2].
  rewrite andthen_eq.
  assert (T3 : check_commands e s2 = s2).
  { apply check_commands_idle. destruct M2 as (K2 & _). unfold kq, kp in K2.
    destruct Hq as [Hq|Hq]; [left|right].
    - injection K2; intros. congruence.
    - split; auto. injection K2; auto. }
  rewrite T3. destruct (ok s2); [|apply cand_mid_post; exact M2].
  destruct (try_compact_E e s2) as (C1 & C2 & C3).
  destruct M2 as (K2 & W2 & _). apply kq_inj in K2 as (K2a & K2b & K2c & _).
  unfold cand_post. rewrite C1, C2, K2a. split; auto. split; auto.
  rewrite K2b, K2c in C3. exact C3.
Qed.

(* C05_candidate_start *)
Lemma candidate_start e nx me :
  self nx = Some me ->
  (role nx = FOLLOWER \/ role nx = CANDIDATE) ->
  need_load nx && file_dump (cf e) = false ->
  replay_done nx ->
  (queue nx = [] \/ wait_leader (cf e) = true) ->
  (deadline nx < t0 e)%Z -> connected_to_anyone nx = true -> others nx <> [] ->
  let s := on_tick e nx in
  self (nd s) = Some me /\ others (nd s) = others nx /\ readonly (nd s) = readonly nx /\
  connected (nd s) = connected nx /\ tconn (nd s) = tconn nx /\
  role (nd s) = CANDIDATE /\ term (nd s) = term nx + 1 /\ voted (nd s) = Some me /\ votes (nd s) = 1 /\
  leader (nd s) = None /\
  wire (outs s) = map (fun y => Send y (rv_of nx)) (rv_targets nx) /\
  (log (nd s) = log nx \/ (pid (sr nx) = 1 /\ log (nd s) = delete_to (log nx) (cur_id (sr nx)))).
Proof.
  intros Hs Hr Hl Rd Hq Hd Hc Ho. cbv zeta.
  destruct (tick_prefix e nx Hl) as (s2 & Eq & K2 & A2 & D2 & O2 & X2 & T2).
  rewrite Eq. clear Eq.
  assert (P : cand_post nx me ((tick_election e ;; tick_leader e ;; tick_tail e) s2)).
  { apply kq_kp in K2 as (k1 & k2 & k3 & k4 & k5 & k6 & k7 & k8 & k9 & k10 & k11 & k12 & k13 & k14).
    assert (Hm : majority 1 (nd s2) = false).
    { unfold majority. rewrite k2. destruct (others nx) as [|a r]; [congruence|].
      cbn [length]. apply N.ltb_ge. lia. }
    assert (Hc2 : connected_to_anyone (nd s2) = true) by (unfold connected_to_anyone; rewrite k4, k2; exact Hc).
    destruct (tick_election_fires e s2 me) as (K3 & A3 & W3);
      [congruence | rewrite k6; exact Hr | rewrite D2, T2; exact Hd | exact Hc2 | exact Hm |].
    set (s3 := tick_election e s2) in *.
    pose proof (kq_inj _ _ _ _ _ _ K3) as (_ & _ & _ & _ & R3).
    assert (M3 : cand_mid nx me s3).
    { unfold cand_mid. rewrite K3, W3, O2. cbn [wire filter app]. unfold rv_of, rv_targets, replay_done.
      rewrite R3, k1, k2, k3, k4, k5, k7, k11, k12, k13, k14, A3, A2. repeat split; auto. }
    rewrite andthen_eq. fold s3.
    destruct (ok s3); [|apply cand_mid_post; exact M3].
    assert (T4 : tick_leader e s3 = s3).
    { unfold tick_leader. destruct M3 as (K & _). unfold kq, kp in K.
      assert (E : role (nd s3) = CANDIDATE) by (injection K; auto). rewrite E. reflexivity. }
    rewrite andthen_eq, T4. destruct (ok s3); [|apply cand_mid_post; exact M3].
    apply tick_tail_cand; auto. }
  destruct P as (K & W & L). apply kp_inj in K as (p1 & p2 & p3 & p4 & p5 & p6 & p7 & p8 & p9 & p10).
  rewrite Hs in p1. auto 15.
Qed.

(* ---------- a node alone in its cluster ---------- *)
Definition ecore (n : node) := (self n, role n, term n, voted n, votes n, leader n).

Lemma become_leader_role e s :
  role (nd (become_leader e s)) = LEADER /\ leader (nd (become_leader e s)) = self (nd s) /\
  self (nd (become_leader e s)) = self (nd s).
Proof.
  set (p := fun n : node => (role n, leader n, self n)).
  assert (H : p (nd (become_leader e s)) = (LEADER, self (nd s), self (nd s))).
  { unfold become_leader. cbv zeta.
    match goal with |- p (nd ((_ ;; _) ?s0)) = _ => set (s1 := s0) end.
    assert (E1 : p (nd s1) = (LEADER, self (nd s), self (nd s))).
    { subst s1. rewrite nd_upd. unfold log_add.
      match goal with |- p (?n0 <| log := _ |> <| noop_idx := _ |>) = _ => change (p n0 = (LEADER, self (nd s), self (nd s))) end.
      rewrite nd_upd.
      rewrite (fr_fold_node p) by (intros; reflexivity).
      rewrite nd_upd. change (p (nd (set_role LEADER (upd (fun n => n <| leader := self n |>) s))) = (LEADER, self (nd s), self (nd s))).
      unfold set_role. cbv zeta. destruct (_ =? _); reflexivity. }
    clearbody s1. rewrite andthen_eq.
    destruct (use_batch (cf e)).
    - destruct (ok s1); [|exact E1]. rewrite (fr_send_ae p) by (intros; reflexivity). exact E1.
    - destruct (ok (send_ae e s1)); rewrite !(fr_send_ae p) by (intros; reflexivity); exact E1. }
  unfold p in H. injection H. auto.
Qed.

Lemma tick_leader_alone e s : others (nd s) = [] -> ecore (nd (tick_leader e s)) = ecore (nd s).
Proof.
  intros Ho. unfold tick_leader. cbv zeta.
  destruct (role (nd s) =? LEADER); [|reflexivity].
  match goal with |- context [commit_loop ?f ?a ?b s] =>
    pose proof (nd_commit_loop f a b s) as G; destruct (commit_loop f a b s) as [s1 nc] end.
  cbn [fst] in G.
  destruct (ok s1); [|rewrite G; reflexivity].
  assert (Ho1 : others (nd s1) = []) by (rewrite G; exact Ho).
  destruct (commit (nd s1) =? nc); cbn; rewrite Ho1; cbn; rewrite G; unfold majority; cbn; rewrite Ho; cbn;
    rewrite ?G; reflexivity.
Qed.

Lemma tick_tail_ecore e s : ecore (nd (tick_tail e s)) = ecore (nd s).
Proof.
  unfold tick_tail.
  pose proof (fr_apply_entries ecore) as A. specialize (A ltac:(reflexivity) ltac:(reflexivity) ltac:(reflexivity)
    ltac:(reflexivity) ltac:(reflexivity) ltac:(reflexivity) ltac:(reflexivity) ltac:(reflexivity) ltac:(reflexivity) e s).
  destruct (apply_entries e s) as [s1 need]. cbn [fst] in A.
  destruct (ok s1); [|exact A].
  rewrite andthen_eq.
  assert (B : ecore (nd (tick_send e need s1)) = ecore (nd s)).
  { rewrite (fr_tick_send ecore) by (intros; reflexivity). exact A. }
  set (s2 := tick_send e need s1) in *. destruct (ok s2); [|exact B].
  rewrite andthen_eq.
  assert (C : ecore (nd (tick_ready s2)) = ecore (nd s)).
  { rewrite (fr_tick_ready ecore) by (intros; reflexivity). exact B. }
  set (s3 := tick_ready s2) in *. destruct (ok s3); [|exact C].
  rewrite andthen_eq.
  assert (D : ecore (nd (check_commands e s3)) = ecore (nd s)).
  { rewrite (fr_check_commands ecore) by (intros; reflexivity). exact C. }
  set (s4 := check_commands e s3) in *. destruct (ok s4); [|exact D].
  rewrite (fr_try_compact ecore) by (intros; reflexivity). exact D.
Qed.

(* C05_single_node_elects: a voter with no other member is leader of the next term at once *)
Lemma single_node_elects e nx me :
  self nx = Some me ->
  (role nx = FOLLOWER \/ role nx = CANDIDATE) ->
  need_load nx && file_dump (cf e) = false ->
  (deadline nx < t0 e)%Z -> others nx = [] ->
  let s := on_tick e nx in
  self (nd s) = Some me /\ role (nd s) = LEADER /\ term (nd s) = term nx + 1 /\ voted (nd s) = Some me /\
  leader (nd s) = Some me.
Proof.
  intros Hs Hr Hl Hd Ho. cbv zeta.
  destruct (tick_prefix e nx Hl) as (s2 & Eq & K2 & A2 & D2 & O2 & X2 & T2).
  rewrite Eq. clear Eq.
  apply kq_kp in K2 as (k1 & k2 & k3 & k4 & k5 & k6 & k7 & k8 & k9 & k10 & k11 & k12 & k13 & k14).
  assert (Hc2 : connected_to_anyone (nd s2) = true).
  { unfold connected_to_anyone. rewrite k2, Ho. cbn. apply orb_true_r. }
  destruct (tick_election_core e s2 me) as (s5 & E & K & A & W);
    [congruence | rewrite k6; exact Hr | rewrite D2, T2; exact Hd | exact Hc2 |].
  assert (Hm : majority 1 (nd s2) = true) by (unfold majority; rewrite k2, Ho; reflexivity).
  rewrite Hm in E.
  apply kq_inj in K as (K & _). apply kp_inj in K as (p1 & p2 & p3 & p4 & p5 & p6 & p7 & p8 & p9 & p10).
  destruct (become_leader_role e s5) as (R1 & R2 & R3).
  pose proof (fr_become_leader (fun n => (term n, voted n, votes n, others n))) as F.
  specialize (F ltac:(reflexivity) ltac:(reflexivity) ltac:(reflexivity) ltac:(reflexivity) ltac:(reflexivity)
    ltac:(reflexivity) ltac:(reflexivity) ltac:(reflexivity) ltac:(reflexivity) e s5).
  cbv beta in F. injection F as F1 F2 F3 F4.
  set (s3 := tick_election e s2) in *. rewrite <- E in *. clear E.
  assert (C3 : ecore (nd s3) = (Some me, LEADER, term nx + 1, Some me, 1, Some me)).
  { unfold ecore. rewrite R1, R2, R3, F1, F2, F3, p1, p7, p8, p9, k1, k7, Hs. reflexivity. }
  assert (O3 : others (nd s3) = []) by (rewrite F4, p2, k2; exact Ho).
  assert (Fin : ecore (nd ((tick_election e ;; tick_leader e ;; tick_tail e) s2)) =
                (Some me, LEADER, term nx + 1, Some me, 1, Some me)).
  { rewrite andthen_eq. fold s3. clearbody s3.
    destruct (ok s3); [|exact C3].
    rewrite andthen_eq.
    pose proof (tick_leader_alone e s3 O3) as L4.
    destruct (ok (tick_leader e s3)); [|rewrite L4; exact C3].
    rewrite tick_tail_ecore, L4. exact C3. }
  unfold ecore in Fin. injection Fin. auto.
Qed.
