(* C05, elections resolve, part 1: channels, routing of the outputs of a step, and the locality
   of a global step (an event executed at node b touches node b and the channels that have b as
   an endpoint, nothing else). *)
From Coq Require Import ZArith NArith List Bool Lia.
From RecordUpdate Require Import RecordSet.
From PSO Require Import Raft.Types Raft.Node Raft.Net Raft.Obs.
Import ListNotations.
Import RecordSetNotations.
Open Scope N_scope.

(* ---------- sorted-set membership ---------- *)
Lemma pe_smem_In x l : smem x l = true <-> In x l.
Proof.
  induction l as [|y r IH]; cbn.
  - split; [discriminate | tauto].
  - rewrite orb_true_iff, IH, N.eqb_eq. split; intros [H|H]; auto.
Qed.

Lemma pe_smem_sadd x y l : smem x (sadd y l) = (x =? y) || smem x l.
Proof.
  induction l as [|z r IH]; cbn.
  - reflexivity.
  - destruct (y <? z) eqn:E1; cbn; [reflexivity|].
    destruct (y =? z) eqn:E2; cbn.
    + apply N.eqb_eq in E2; subst z. destruct (x =? y); reflexivity.
    + rewrite IH. destruct (x =? z), (x =? y); reflexivity.
Qed.

Lemma pe_smem_sunion x a b : smem x (sunion a b) = smem x a || smem x b.
Proof.
  unfold sunion. revert a. induction b as [|y b IH]; intros a; cbn.
  - rewrite orb_false_r; reflexivity.
  - rewrite IH, pe_smem_sadd. destruct (x =? y), (smem x a), (smem x b); reflexivity.
Qed.

(* ---------- channels ---------- *)
Lemma pe_find_filter_same {A} (p f : A -> bool) l :
  (forall x, p x = true -> f x = true) -> find p (filter f l) = find p l.
Proof.
  intros H. induction l as [|a l IH]; cbn; auto.
  destruct (f a) eqn:Ef; cbn.
  - destruct (p a); auto.
  - destruct (p a) eqn:Ep; auto. rewrite (H a Ep) in Ef. discriminate.
Qed.

Lemma pe_chan_get_set a b a' b' q g :
  chan_get a b (chan_set a' b' q g) = if (a =? a') && (b =? b') then q else chan_get a b g.
Proof.
  unfold chan_get, chan_set. cbn [chan set]. cbn [find fst snd].
  destruct ((a' =? a) && (b' =? b)) eqn:E.
  - apply andb_true_iff in E as [E1 E2]. apply N.eqb_eq in E1, E2. subst. rewrite !N.eqb_refl. reflexivity.
  - assert (E' : (a =? a') && (b =? b') = false).
    { rewrite (N.eqb_sym a a'), (N.eqb_sym b b'). exact E. }
    rewrite E'. rewrite pe_find_filter_same; auto.
    intros [[x y] z] Hp. cbn in *. apply andb_true_iff in Hp as [H1 H2]. apply N.eqb_eq in H1, H2. subst.
    rewrite E'. reflexivity.
Qed.

Lemma pe_chan_get_set_same a b q g : chan_get a b (chan_set a b q g) = q.
Proof. rewrite pe_chan_get_set, !N.eqb_refl. reflexivity. Qed.

Lemma pe_chan_get_set_other a b a' b' q g :
  (a <> a' \/ b <> b') -> chan_get a b (chan_set a' b' q g) = chan_get a b g.
Proof.
  intros H. rewrite pe_chan_get_set.
  destruct ((a =? a') && (b =? b')) eqn:E; auto.
  apply andb_true_iff in E as [E1 E2]. apply N.eqb_eq in E1, E2. destruct H; congruence.
Qed.

Lemma pe_chan_set_nodes a b q g : nodes (chan_set a b q g) = nodes g.
Proof. reflexivity. Qed.

(* ---------- what a list of outputs puts on the wire ---------- *)
Definition on_wire (o : out) : bool :=
  match o with Send _ _ => true | TDrop _ => true | _ => false end.
Definition wire (os : list out) : list out := filter on_wire os.

Lemma wire_app a b : wire (a ++ b) = wire a ++ wire b.
Proof. apply filter_app. Qed.

Lemma route_wire a os : forall g, route a os g = route a (wire os) g.
Proof.
  unfold route. induction os as [|o os IH]; intros g; cbn; auto.
  destruct o; cbn; auto.
Qed.

Lemma route_nodes a os : forall g, nodes (route a os g) = nodes g.
Proof.
  unfold route. induction os as [|o os IH]; intros g; cbn; auto.
  destruct o; rewrite IH; reflexivity.
Qed.

(* messages sent to d, in order *)
Definition sent_to (d : nid) (os : list out) : list msg :=
  flat_map (fun o => match o with Send d' m => if d' =? d then [m] else [] | _ => [] end) os.

Definition no_tdrop (os : list out) : Prop := forall z, ~ In (TDrop z) os.

Lemma sent_to_app d a b : sent_to d (a ++ b) = sent_to d a ++ sent_to d b.
Proof. unfold sent_to. apply flat_map_app. Qed.

Lemma sent_to_wire d os : sent_to d (wire os) = sent_to d os.
Proof.
  unfold sent_to, wire. induction os as [|o os IH]; cbn; auto.
  destruct o; cbn; rewrite ?IH; auto.
Qed.

Lemma no_tdrop_wire os : no_tdrop (wire os) <-> no_tdrop os.
Proof.
  unfold no_tdrop, wire. split; intros H z Hin; apply (H z).
  - apply filter_In. split; auto.
  - apply filter_In in Hin as [Hin _]. exact Hin.
Qed.

(* without a transport drop, routing appends: the channel a->d gets the messages sent to d, every
   channel with another source is left alone *)
Lemma route_chan_src a os : forall g d, no_tdrop os ->
  chan_get a d (route a os g) = chan_get a d g ++ sent_to d os.
Proof.
  unfold route. induction os as [|o os IH]; intros g d Hn; cbn [fold_left].
  - cbn. rewrite app_nil_r. reflexivity.
  - assert (Hn' : no_tdrop os) by (intros z Hz; apply (Hn z); right; exact Hz).
    destruct o as [d' m| | | |z].
    + rewrite IH by exact Hn'. rewrite pe_chan_get_set. rewrite N.eqb_refl. cbn [andb sent_to flat_map].
      rewrite (N.eqb_sym d d').
      destruct (d' =? d) eqn:E.
      * apply N.eqb_eq in E; subst d'. rewrite <- app_assoc. reflexivity.
      * reflexivity.
    + rewrite IH by exact Hn'. reflexivity.
    + rewrite IH by exact Hn'. reflexivity.
    + rewrite IH by exact Hn'. reflexivity.
    + exfalso. apply (Hn z). left. reflexivity.
Qed.

Lemma route_chan_other a os : forall g a' d, a' <> a -> no_tdrop os ->
  chan_get a' d (route a os g) = chan_get a' d g.
Proof.
  unfold route. induction os as [|o os IH]; intros g a' d Hne Hn; cbn [fold_left]; auto.
  assert (Hn' : no_tdrop os) by (intros z Hz; apply (Hn z); right; exact Hz).
  destruct o as [d' m| | | |z]; try (rewrite IH by auto; reflexivity).
  - rewrite IH by auto. apply pe_chan_get_set_other. left; exact Hne.
  - exfalso. apply (Hn z). left. reflexivity.
Qed.

(* ---------- locality of a step ---------- *)
(* g' differs from g at most in node b and in the channels that start or end at b *)
Definition same_except (b : nid) (g g' : gstate) : Prop :=
  (forall z, z <> b -> aget z (nodes g') = aget z (nodes g)) /\
  (forall a d, a <> b -> d <> b -> chan_get a d g' = chan_get a d g).

Lemma pe_aget_aset {V} (k k' : N) (v : V) l :
  aget k (aset k' v l) = if k =? k' then Some v else aget k l.
Proof.
  induction l as [|[k0 v0] r IH]; simpl.
  - destruct (k =? k'); reflexivity.
  - destruct (k' <? k0) eqn:E1; simpl.
    + destruct (k =? k'); reflexivity.
    + destruct (k' =? k0) eqn:E2; simpl.
      * apply N.eqb_eq in E2; subst k0. destruct (k =? k'); reflexivity.
      * rewrite IH. destruct (k =? k0) eqn:E3; auto.
        apply N.eqb_eq in E3; subst k0.
        destruct (k =? k') eqn:E4; auto. apply N.eqb_eq in E4; subst k'.
        rewrite N.eqb_refl in E2; discriminate.
Qed.

Lemma route_same_except b os : forall g, same_except b g (route b os g).
Proof.
  unfold route. induction os as [|o os IH]; intros g; cbn [fold_left].
  - split; auto.
  - destruct o as [d' m| | | |z]; try apply IH.
    + destruct (IH (chan_set b d' (chan_get b d' g ++ [m]) g)) as [H1 H2]. split.
      * intros z Hz. rewrite H1 by exact Hz. reflexivity.
      * intros a d Ha Hd. rewrite H2 by auto. apply pe_chan_get_set_other. left; exact Ha.
    + destruct (IH (chan_set z b [] g)) as [H1 H2]. split.
      * intros z' Hz. rewrite H1 by exact Hz. reflexivity.
      * intros a d Ha Hd. rewrite H2 by auto. apply pe_chan_get_set_other. right; exact Hd.
Qed.

Lemma finish_same_except b s g : same_except b g (finish b s g).
Proof.
  unfold finish. destruct (route_same_except b (outs s) (put_node b (nd s) g)) as [H1 H2]. split.
  - intros z Hz. rewrite H1 by exact Hz. unfold put_node. cbn. rewrite pe_aget_aset.
    destruct (z =? b) eqn:E; auto. apply N.eqb_eq in E. congruence.
  - intros a d Ha Hd. rewrite H2 by auto. reflexivity.
Qed.

Lemma finish_node b s g : aget b (nodes (finish b s g)) = Some (nd s).
Proof.
  unfold finish. rewrite route_nodes. unfold put_node. cbn. rewrite pe_aget_aset, N.eqb_refl. reflexivity.
Qed.

(* the channels of the node that ran, when its outputs hold no transport drop *)
Lemma finish_chan_src b s g d : no_tdrop (outs s) ->
  chan_get b d (finish b s g) = chan_get b d g ++ sent_to d (outs s).
Proof. intros H. unfold finish. rewrite route_chan_src by exact H. reflexivity. Qed.

Lemma finish_chan_other b s g a d : a <> b -> no_tdrop (outs s) ->
  chan_get a d (finish b s g) = chan_get a d g.
Proof. intros Ha H. unfold finish. rewrite route_chan_other by auto. reflexivity. Qed.

(* a delivery a -> b *)
Lemma deliver_step c g a b now rnd ord x m rest :
  aget b (nodes g) = Some x -> chan_get a b g = m :: rest ->
  let s := on_message (mk_env c now rnd DEFAULT_BUDGET ord 0) a m x in
  gstep c g (EDeliver a b now rnd ord) = Some (finish b s (chan_set a b rest g), Some (b, s)).
Proof. intros Hx Hc. cbv zeta. unfold gstep. rewrite Hx, Hc. reflexivity. Qed.

Lemma deliver_same_except c g a b now rnd ord x m rest :
  aget b (nodes g) = Some x -> chan_get a b g = m :: rest ->
  let s := on_message (mk_env c now rnd DEFAULT_BUDGET ord 0) a m x in
  same_except b g (finish b s (chan_set a b rest g)).
Proof.
  intros Hx Hc. cbv zeta.
  match goal with |- same_except b g (finish b ?s ?g1) => destruct (finish_same_except b s g1) as [H1 H2] end.
  split.
  - intros z Hz. rewrite H1 by exact Hz. reflexivity.
  - intros a' d Ha Hd. rewrite H2 by auto. apply pe_chan_get_set_other. right; exact Hd.
Qed.

Lemma tick_step c g n now rnd bud ord sl x :
  aget n (nodes g) = Some x ->
  let s := on_tick (mk_env c now rnd bud ord sl) x in
  gstep c g (ETick n now rnd bud ord sl) = Some (finish n s g, Some (n, s)).
Proof. intros Hx. cbv zeta. unfold gstep. rewrite Hx. reflexivity. Qed.

(* ---------- run_trace over a concatenation ---------- *)
Lemma run_trace_app c evs1 : forall g evs2 g1,
  run_trace c g evs1 = Some g1 -> run_trace c g (evs1 ++ evs2) = run_trace c g1 evs2.
Proof.
  induction evs1 as [|ev r IH]; intros g evs2 g1 H; cbn in *.
  - injection H as <-. reflexivity.
  - destruct (gstep c g ev) as [[g' o]|]; [|discriminate]. apply IH. exact H.
Qed.

Lemma run_trace_one c g ev g' o : gstep c g ev = Some (g', o) -> run_trace c g [ev] = Some g'.
Proof. intros H. cbn. rewrite H. reflexivity. Qed.
