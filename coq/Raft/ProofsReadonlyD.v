(* C18_not_counted: no read-only id (>= RO_BASE) ever becomes a member of `others`.
   Data-flow invariant: every membership command anywhere in the system names a voter id. *)
From Coq Require Import ZArith NArith List Bool Lia ZifyBool ZifyN.
From RecordUpdate Require Import RecordSet.
From PSO Require Import Raft.Types Raft.Node Raft.Net.
Import ListNotations.
Import RecordSetNotations.
Open Scope N_scope.

Definition vid (x : nid) : Prop := x < RO_BASE.
Definition cmd_ok (c : cmd) : Prop := ck c = 2 -> vid (cb c).
Definition entry_ok (e : entry) : Prop := cmd_ok (ecmd e).
Definition snap_ok (sn : snapshot) : Prop := entry_ok (s_e1 sn) /\ entry_ok (s_e0 sn) /\ Forall vid (s_cluster sn).
Definition blob_ok (b : blob) : Prop := match b with Good sn => snap_ok sn | Corrupt _ => True end.
Definition part_ok (p : snap_part) : Prop := match p with SNone => True | SData b _ _ _ _ => blob_ok b end.
Definition msg_ok (m : msg) : Prop :=
  match m with
  | AE _ _ _ es => Forall entry_ok es
  | AEPiece _ _ _ _ _ _ e => entry_ok e
  | AESnap _ _ p => part_ok p
  | ApplyCmd c _ => cmd_ok c
  | _ => True
  end.
Definition out_ok (o : out) : Prop := match o with Send _ m => msg_ok m | _ => True end.
Definition oblob_ok (o : option blob) : Prop := match o with Some b => blob_ok b | None => True end.
Definition piece_ok (p : piece) : Prop := blob_ok (fst (fst p)).
Definition ser_ok (z : ser) : Prop :=
  oblob_ok (stored z) /\ Forall (fun kv => blob_ok (fst (snd kv))) (trans z) /\
  match incoming z with Some ps => Forall piece_ok ps | None => True end.
Definition node_ok (n : node) : Prop :=
  Forall vid (others n) /\ (forall i, self n = Some i -> vid i) /\ Forall entry_ok (log n) /\
  Forall (fun q => cmd_ok (fst q)) (queue n) /\ Forall (fun p => entry_ok (fst (fst p))) (recv_t n) /\
  ser_ok (sr n).
Definition S_ok (s : S) : Prop := node_ok (nd s) /\ Forall out_ok (outs s).

(* ---- list facts ---- *)
Lemma Forall_sadd : forall (P : N -> Prop) x l, P x -> Forall P l -> Forall P (sadd x l).
Proof.
  intros P x l Hx; induction l as [|y l IH]; intros H; cbn; [auto|].
  inversion H; subst. destruct (x <? y); [auto|]. destruct (x =? y); auto.
Qed.

Lemma Forall_sdel : forall (P : N -> Prop) x l, Forall P l -> Forall P (sdel x l).
Proof.
  intros P x l; induction l as [|y l IH]; intros H; cbn; [auto|].
  inversion H; subst. destruct (x =? y); auto.
Qed.

Lemma Forall_aset : forall {V} (P : N * V -> Prop) k v l, P (k, v) -> Forall P l -> Forall P (aset k v l).
Proof.
  intros V P k v l Hx; induction l as [|[k' w] l IH]; intros H; cbn; [auto|].
  inversion H; subst. destruct (k <? k'); [auto|]. destruct (k =? k'); auto.
Qed.

Lemma Forall_adel : forall {V} (P : N * V -> Prop) k l, Forall P l -> Forall P (adel k l).
Proof.
  intros V P k l; induction l as [|[k' w] l IH]; intros H; cbn; [auto|].
  inversion H; subst. destruct (k =? k'); auto.
Qed.

Lemma aget_Forall : forall {V} (P : N * V -> Prop) k v l, Forall P l -> aget k l = Some v -> exists k', P (k', v).
Proof.
  intros V P k v l; induction l as [|[k' w] l IH]; intros H E; cbn in E; [discriminate|].
  inversion H; subst. destruct (k =? k'); [inversion E; subst; eauto | auto].
Qed.

Lemma Forall_firstn : forall {A} (P : A -> Prop) k l, Forall P l -> Forall P (firstn k l).
Proof. intros A P k; induction k as [|k IH]; intros [|a l] H; cbn; auto. inversion H; subst; auto. Qed.

Lemma Forall_skipn : forall {A} (P : A -> Prop) k l, Forall P l -> Forall P (skipn k l).
Proof. intros A P k; induction k as [|k IH]; intros [|a l] H; cbn; auto. inversion H; subst; auto. Qed.

Lemma Forall_take_size : forall P m tot l, Forall P l -> Forall P (take_size m tot l).
Proof.
  intros P m tot l; revert tot; induction l as [|e l IH]; intros tot H; cbn; [auto|].
  inversion H; subst. destruct (m <=? _); auto.
Qed.

Lemma Forall_get_entries : forall P l from count maxsz, Forall P l -> Forall P (get_entries l from count maxsz).
Proof.
  intros P l from count maxsz H. unfold get_entries. destruct from as [f|]; [|auto].
  destruct (f <? first_idx l); [auto|].
  assert (Forall P (skipn (N.to_nat (f - first_idx l)) l)) as H1 by (apply Forall_skipn; exact H).
  assert (Forall P match count with None => skipn (N.to_nat (f - first_idx l)) l
                   | Some c => firstn (N.to_nat c) (skipn (N.to_nat (f - first_idx l)) l) end) as H2
    by (destruct count; [apply Forall_firstn|]; exact H1).
  destruct maxsz; [apply Forall_take_size|]; exact H2.
Qed.

Lemma Forall_delete_from : forall P l k, Forall P l -> Forall P (delete_from l k).
Proof. intros P l k H; unfold delete_from. destruct (_ <? _); [exact H | apply Forall_firstn; exact H]. Qed.

Lemma Forall_delete_to : forall P l k, Forall P l -> Forall P (delete_to l k).
Proof. intros P l k H; unfold delete_to. destruct (_ <? _); [exact H | apply Forall_skipn; exact H]. Qed.

Lemma Forall_last_entry : forall P l e, Forall P l -> last_entry l = Some e -> P e.
Proof.
  intros P l e; induction l as [|a l IH]; intros H E; cbn in E; [discriminate|].
  inversion H; subst. destruct l; [inversion E; subst; auto | auto].
Qed.

(* ---- primitives ---- *)
Lemma ok_upd : forall f s, (forall n, node_ok n -> node_ok (f n)) -> S_ok s -> S_ok (upd f s).
Proof. intros f s Hf (H1 & H2). split; [apply Hf; exact H1 | exact H2]. Qed.

Lemma ok_emit : forall o s, out_ok o -> S_ok s -> S_ok (emit o s).
Proof. intros o s Ho (H1 & H2). split; [exact H1|]. cbn. apply Forall_app; auto. Qed.

Lemma ok_raise : forall c s, S_ok s -> S_ok (raise c s).
Proof. intros c s H; exact H. Qed.

Lemma ok_send : forall d m s, msg_ok m -> S_ok s -> S_ok (send d m s).
Proof. intros d m s Hm H; unfold send. destruct (smem d _); [apply ok_emit; assumption | exact H]. Qed.

Lemma ok_fire : forall c r e s, S_ok s -> S_ok (fire c r e s).
Proof. intros c r e s H; unfold fire; destruct c; auto. apply ok_emit; [exact I | exact H]. Qed.

Lemma ok_call_err : forall e c s, S_ok s -> S_ok (call_err e c s).
Proof.
  intros e c s H; unfold call_err; destruct c; auto.
  - apply ok_emit; [exact I | exact H].
  - apply ok_send; [exact I | exact H].
Qed.

Lemma ok_fold : forall {A} (f : S -> A -> S) (l : list A) s,
  (forall s x, S_ok s -> S_ok (f s x)) -> S_ok s -> S_ok (fold_left f l s).
Proof. intros A f l; induction l as [|a l IH]; intros s Hf H; cbn; auto. Qed.

Lemma ok_fold_in : forall {A} (f : S -> A -> S) (l : list A) s,
  (forall s x, In x l -> S_ok s -> S_ok (f s x)) -> S_ok s -> S_ok (fold_left f l s).
Proof.
  intros A f l; induction l as [|a l IH]; intros s Hf H; cbn; auto.
  apply IH; [intros; apply Hf; [right|]; assumption | apply Hf; [left; reflexivity | exact H]].
Qed.

Lemma ok_on_leader_changed : forall s, S_ok s -> S_ok (on_leader_changed s).
Proof.
  intros s H; unfold on_leader_changed. apply ok_upd; [intros n Hn; exact Hn|].
  apply ok_fold; [intros; apply ok_fire; assumption | exact H].
Qed.

Lemma ok_send_next_idx : forall d nx r su s, S_ok s -> S_ok (send_next_idx d nx r su s).
Proof. intros; unfold send_next_idx; apply ok_send; [exact I | assumption]. Qed.

Lemma ok_set_role : forall r s, S_ok s -> S_ok (set_role r s).
Proof.
  intros r s H; unfold set_role; cbv zeta.
  destruct (_ =? r); [|apply ok_emit; [exact I|]]; apply ok_upd; auto.
Qed.

(* ---- membership ---- *)
Lemma ok_do_change_cluster : forall add x rev s, vid x -> S_ok s -> S_ok (fst (do_change_cluster add x rev s)).
Proof.
  intros add x rev s Hx H; unfold do_change_cluster; cbv zeta.
  destruct (xorb add rev).
  - destruct (_ || _); cbn; [exact H|].
    apply ok_emit; [exact I|]. destruct H as ((A1 & A2 & A3) & B). split; [|exact B].
    destruct (role (nd s) =? LEADER); cbn; (split; [apply Forall_sadd; assumption | split; assumption]).
  - destruct (self_is x (nd s)); cbn; [exact H|]. destruct (negb _); cbn; [exact H|].
    apply ok_emit; [exact I|]. destruct H as ((A1 & A2 & A3) & B). split; [|exact B].
    cbn. split; [apply Forall_sdel; assumption | split; assumption].
Qed.

Lemma membership_vid : forall c a x, cmd_ok c -> membership_of c = Some (a, x) -> vid x.
Proof.
  intros c a x Hc H; unfold membership_of in H. destruct (ck c =? 2) eqn:E; [|discriminate].
  inversion H; subst. apply Hc. apply N.eqb_eq; exact E.
Qed.

Lemma ok_apply_membership : forall rev es s, Forall entry_ok es -> S_ok s -> S_ok (apply_membership rev es s).
Proof.
  intros rev es s Hes H; unfold apply_membership. apply ok_fold_in; [|exact H].
  intros s0 e Hin H0. destruct (membership_of (ecmd e)) as [[a x]|] eqn:E; [|exact H0].
  apply ok_do_change_cluster; [|exact H0]. rewrite Forall_forall in Hes. eapply membership_vid; [apply Hes; exact Hin | exact E].
Qed.

Lemma node_ok_others : forall n l, Forall vid l -> node_ok n -> node_ok (n <| others := l |>).
Proof. intros n l Hl (A1 & A2). split; [exact Hl | exact A2]. Qed.

Lemma ok_update_cluster : forall new s, Forall vid new -> S_ok s -> S_ok (update_cluster new s).
Proof.
  intros new s Hnew H; unfold update_cluster; cbv zeta.
  apply ok_fold; [intros s0 a H0; apply ok_upd; [intros n Hn; exact Hn | apply ok_emit; [exact I | exact H0]]|].
  apply ok_upd; [intros n Hn; apply node_ok_others; assumption|].
  apply ok_fold; [|exact H].
  intros s0 r H0. apply ok_emit; [exact I|]. apply ok_upd; [intros n Hn; exact Hn | exact H0].
Qed.

(* ---- serializer ---- *)
Lemma node_ok_sr : forall n z, ser_ok z -> node_ok n -> node_ok (n <| sr := z |>).
Proof.
  intros n z Hz (A1 & A2 & A3 & A4 & A5 & A6).
  split; [exact A1|]. split; [exact A2|]. split; [exact A3|]. split; [exact A4|]. split; [exact A5 | exact Hz].
Qed.

Lemma ok_get_transmission : forall e x s, S_ok s ->
  S_ok (fst (get_transmission e x s)) /\ part_ok (snd (get_transmission e x s)).
Proof.
  intros e x s H; unfold get_transmission; cbv zeta.
  destruct (negb _); cbn; [split; [exact H | exact I]|].
  pose proof H as ((_ & _ & _ & _ & _ & (Z1 & Z2 & Z3)) & _).
  assert (forall b off, match aget x (trans (sr (nd s))) with
                        | Some t => Some t
                        | None => match stored (sr (nd s)) with Some b => Some (b, 0) | None => None end
                        end = Some (b, off) -> blob_ok b) as Hb.
  { intros b off E. destruct (aget x (trans (sr (nd s)))) as [[b' o']|] eqn:E1.
    - inversion E; subst. destruct (aget_Forall _ _ _ _ Z2 E1) as (k' & Hk). exact Hk.
    - destruct (stored (sr (nd s))) as [b'|]; [|discriminate]. inversion E; subst. exact Z1. }
  destruct (match aget x (trans (sr (nd s))) with Some t => Some t | None => _ end) as [[b off]|] eqn:E;
    cbn; [|split; [exact H | exact I]].
  specialize (Hb b off eq_refl). split; [|exact Hb].
  apply ok_upd; [|exact H]. intros n Hn. apply node_ok_sr; [|exact Hn].
  destruct Hn as (_ & _ & _ & _ & _ & (Y1 & Y2 & Y3)).
  split; [exact Y1|]. split; [|exact Y3]. cbn.
  destruct (_ =? 0); [apply Forall_adel; exact Z2 | apply Forall_aset; [exact Hb | exact Z2]].
Qed.

Lemma ok_cancel_transmission : forall x s, S_ok s -> S_ok (cancel_transmission x s).
Proof.
  intros x s H; unfold cancel_transmission. apply ok_upd; [|exact H]. intros n Hn.
  apply node_ok_sr; [|exact Hn]. destruct Hn as (_ & _ & _ & _ & _ & (Y1 & Y2 & Y3)).
  split; [exact Y1|]. split; [apply Forall_adel; exact Y2 | exact Y3].
Qed.

Lemma assemble_snap_ok : forall ps, Forall piece_ok ps -> blob_ok (assemble_snap ps).
Proof.
  intros ps H; unfold assemble_snap. destruct ps as [|[[b o] l] r]; [exact I|].
  destruct b as [sn|]; [|exact I]. destruct (pieces_contig _ _ _); [|exact I].
  inversion H; subst. exact H2.
Qed.

Lemma ok_set_transmission : forall p s, part_ok p -> S_ok s -> S_ok (fst (set_transmission p s)).
Proof.
  intros p s Hp H; unfold set_transmission. destruct p as [|b off len first last]; cbn; [exact H|].
  pose proof H as ((_ & _ & _ & _ & _ & (Z1 & Z2 & Z3)) & _).
  destruct (if first then Some [] else incoming (sr (nd s))) as [ps|] eqn:E; cbn; [|exact H].
  assert (Forall piece_ok (ps ++ [(b, off, len)])) as Hps.
  { apply Forall_app; split; [|repeat constructor; exact Hp].
    destruct first; [inversion E; constructor|]. rewrite E in Z3; exact Z3. }
  destruct last; [destruct (snap_ahead _ _)|]; cbn; (apply ok_upd; [|exact H]); intros n Hn;
    (apply node_ok_sr; [|exact Hn]); destruct Hn as (_ & _ & _ & _ & _ & (Y1 & Y2 & Y3)).
  - split; [apply assemble_snap_ok; exact Hps|]. split; [exact Y2 | exact I].
  - split; [exact Y1|]. split; [exact Y2 | exact I].
  - split; [exact Y1|]. split; [exact Y2 | exact Hps].
Qed.

Lemma node_ok_log : forall n l, Forall entry_ok l -> node_ok n -> node_ok (n <| log := l |>).
Proof.
  intros n l Hl (A1 & A2 & A3 & A4).
  split; [exact A1|]. split; [exact A2|]. split; [exact Hl | exact A4].
Qed.

Lemma Forall_filter : forall {A} (P : A -> Prop) f l, Forall P l -> Forall P (filter f l).
Proof.
  intros A P f l; induction l as [|a l IH]; intros H; cbn; [auto|].
  inversion H; subst. destruct (f a); auto.
Qed.

Lemma ok_load_dump : forall e clear s, S_ok s -> S_ok (load_dump e clear s).
Proof.
  intros e clear s H; unfold load_dump.
  pose proof H as ((_ & _ & _ & _ & _ & (Z1 & _)) & _).
  destruct (stored (sr (nd s))) as [[sn|]|]; try exact H. cbn in Z1. destruct Z1 as (S1 & S0 & SC).
  destruct (clear && (eidx (s_e1 sn) <=? applied (nd s))); [exact H|].
  destruct (self_ver (nd s) <? s_ver sn); [exact H|]. cbv zeta.
  match goal with |- S_ok (if dyn _ then _ else ?Y) => assert (S_ok Y) as HY end.
  { apply ok_upd; [intros n Hn; exact Hn|].
    match goal with |- S_ok (if ?c then upd ?f ?X else ?X) => assert (S_ok X) as HX end.
    { match goal with |- S_ok (if ?k then _ else _) => destruct k end;
        [|apply ok_upd; [intros n Hn; exact Hn | exact H]].
      apply ok_upd; [|apply ok_upd; [intros n Hn; exact Hn | exact H]].
      intros n Hn. apply node_ok_log; [|exact Hn]. apply Forall_delete_to. apply Hn. }
    match goal with |- S_ok (if ?c then _ else _) => destruct c end; [|exact HX].
    apply ok_upd; [|exact HX]. intros n Hn.
    assert (node_ok (n <| log := [s_e0 sn; s_e1 sn] |>)) as Hl by (apply node_ok_log; [repeat constructor; assumption | exact Hn]).
    exact Hl. }
  destruct (dyn (cf e)); [|exact HY].
  match goal with |- S_ok (if _ then apply_membership _ _ ?U else ?U) => assert (S_ok U) as HU end.
  { apply ok_update_cluster; [apply Forall_filter; exact SC | exact HY]. }
  match goal with |- S_ok (if ?c then _ else _) => destruct c end; [|exact HU].
  apply ok_apply_membership; [|exact HU]. apply Forall_get_entries. apply HU.
Qed.

(* ---- __sendAppendEntries ---- *)
Lemma ok_delta_read : forall e s, S_ok s -> S_ok (delta_read e s).
Proof. intros e s H; unfold delta_read; cbv zeta. destruct (_ && _); exact H. Qed.

Lemma ok_send_pieces : forall fuel x en prev b pos s, entry_ok en -> S_ok s -> S_ok (send_pieces fuel x en prev b pos s).
Proof.
  intros fuel; induction fuel as [|f IH]; intros x en prev b pos s He H; cbn; [exact H|].
  destruct (_ <=? pos); [exact H|]. apply IH; [exact He|]. apply ok_send; [exact He | exact H].
Qed.

#[local] Arguments send_pieces : simpl never.

Lemma ok_ae_body : forall e x next s, S_ok s -> S_ok (fst (ae_body e x next s)).
Proof.
  intros e x next s H; unfold ae_body; cbv zeta.
  pose proof H as ((_ & _ & HL & _) & _).
  destruct (first_idx (log (nd s)) <? next).
  - destruct (next <=? last_idx (log (nd s))).
    + assert (Forall entry_ok (get_entries (log (nd s)) (Some next) None (Some (batch (cf e))))) as HE
        by (apply Forall_get_entries; exact HL).
      assert (S_ok (upd (fun n => n <| next_idx := aset x (last_idx (get_entries (log (nd s)) (Some next) None (Some (batch (cf e)))) + 1) (next_idx n) |>) s)) as HU
        by (apply ok_upd; [intros n Hn; exact Hn | exact H]).
      destruct (get_entries _ _ _ _) as [|e1 [|e2 r]]; cbn; try (apply ok_send; [exact HE | exact HU]).
      destruct (batch (cf e) <=? csz (ecmd e1)); cbn; [|apply ok_send; [exact HE | exact HU]].
      apply ok_send_pieces; [inversion HE; assumption | exact HU].
    + cbn. apply ok_send; [constructor | exact H].
  - destruct (ok_get_transmission e x s H) as (H1 & H2).
    destruct (get_transmission e x s) as [s1 td]; cbn [fst snd] in *.
    assert (S_ok (send x (AESnap (term (nd s)) (commit (nd s)) td) s1)) as HS by (apply ok_send; assumption).
    destruct td as [|b off len fi la]; cbn; [exact HS|].
    destruct la; cbn; [|exact HS].
    destruct (log (nd (send x _ s1))) as [|? [|e1 ?]]; cbn; exact HS.
Qed.

Lemma ok_ae_loop : forall fuel e start x single ser_ s, S_ok s -> S_ok (ae_loop fuel e start x single ser_ s).
Proof.
  intros fuel; induction fuel as [|f IH]; intros e start x single ser_ s H; cbn [ae_loop]; [exact H|].
  destruct (aget x (next_idx (nd s))) as [next|]; [|exact H].
  destruct (_ || ser_); [|exact H].
  pose proof (ok_ae_body e x next s H) as H1.
  destruct (ae_body e x next s) as [s1 ser']; cbn [fst] in H1.
  destruct (ok s1); [|exact H1].
  destruct (_ <? _)%Z; [apply ok_delta_read; exact H1|].
  apply IH. apply ok_delta_read; exact H1.
Qed.

Lemma ok_send_ae : forall e s, S_ok s -> S_ok (send_ae e s).
Proof.
  intros e s H; unfold send_ae; cbv zeta.
  apply ok_fold.
  - intros s0 x H0. destruct (ok s0); [|exact H0].
    destruct (negb _); [apply ok_cancel_transmission; exact H0 | apply ok_ae_loop; exact H0].
  - apply ok_upd; [intros n Hn; exact Hn|]. exact H.
Qed.

Lemma noop_ok : forall pk, cmd_ok (noop_cmd pk).
Proof. intros pk H; cbn in H; discriminate. Qed.

Lemma node_ok_log_add : forall en n, entry_ok en -> node_ok n -> node_ok (log_add en n).
Proof.
  intros en n He Hn. unfold log_add. apply node_ok_log; [|exact Hn].
  apply Forall_app; split; [apply Hn | repeat constructor; exact He].
Qed.

Lemma ok_become_leader : forall e s, S_ok s -> S_ok (become_leader e s).
Proof.
  intros e s H; unfold become_leader; cbv zeta.
  match goal with |- S_ok (andthen ?f ?g ?X) => assert (S_ok X) as H0 end.
  { apply ok_upd.
    - intros n Hn. assert (node_ok (log_add (mkEntry (noop_cmd (noop_pk (cf e))) (last_idx (log n) + 1) (term n)) n)) as Hl
        by (apply node_ok_log_add; [apply noop_ok | exact Hn]).
      exact Hl.
    - apply ok_upd.
      + intros n Hn. generalize (sunion (others n) (readonly n)); intros l. revert n Hn.
        induction l as [|a l IH]; intros n Hn; cbn [fold_left]; [exact Hn|]. apply IH.
        assert (node_ok (n <| sr := (sr n) <| trans := adel a (trans (sr n)) |> |>)) as Hs.
        { apply node_ok_sr; [|exact Hn]. destruct Hn as (_ & _ & _ & _ & _ & (Y1 & Y2 & Y3)).
          split; [exact Y1|]. split; [apply Forall_adel; exact Y2 | exact Y3]. }
        exact Hs.
      + apply ok_upd; [intros n Hn; exact Hn|]. apply ok_set_role. apply ok_upd; [intros n Hn; exact Hn | exact H]. }
  unfold andthen.
  match goal with |- S_ok (if ok ?Y then _ else _) => assert (S_ok Y) as H1 end.
  { destruct (use_batch (cf e)); [exact H0 | apply ok_send_ae; exact H0]. }
  destruct (ok _); [apply ok_send_ae; exact H1 | exact H1].
Qed.

(* ---- apply ---- *)
#[local] Arguments get_entries : simpl never.
Lemma ok_do_apply : forall c s, cmd_ok c -> S_ok s -> S_ok (fst (do_apply c s)).
Proof.
  intros c s Hc H; unfold do_apply.
  destruct (ck c =? 3).
  - destruct (_ <? ca c); cbn; exact H.
  - destruct (membership_of c) as [[a x]|] eqn:E.
    + destruct (_ <? _); cbn; [|exact H]. apply ok_do_change_cluster; [eapply membership_vid; eauto | exact H].
    + destruct (ck c =? 0); cbn; [|exact H]. destruct (cb c =? 1); cbn; exact H.
Qed.

Lemma ok_apply_one : forall en s, entry_ok en -> S_ok s -> S_ok (fst (apply_one en s)).
Proof.
  intros en s He H; unfold apply_one; cbv zeta.
  match goal with |- context [do_apply ?c ?X] =>
    assert (S_ok X) as H0 by exact H; pose proof (ok_do_apply c X He H0) as H1; destruct (do_apply c X) as [s1 ar] end.
  cbn [fst] in H1.
  assert (forall r, S_ok (upd (fun n => n <| applied := applied n + 1 |>)
            (fold_left (fun s tc => if fst tc =? eterm en then fire (snd tc) r SUCCESS s else fire (snd tc) 0 DISCARDED s)
               match aget (eidx en) (wait_commit (nd s)) with Some l => l | None => [] end s1))) as HF.
  { intros r. apply ok_upd; [intros n Hn; exact Hn|]. apply ok_fold; [|exact H1].
    intros s0 tc H2. destruct (_ =? _); apply ok_fire; exact H2. }
  destruct ar; cbn; [apply HF | exact H1 | apply HF].
Qed.

Lemma ok_apply_list : forall es s, Forall entry_ok es -> S_ok s -> S_ok (apply_list es s).
Proof.
  intros es; induction es as [|en r IH]; intros s He H; cbn; [exact H|].
  inversion He; subst. pose proof (ok_apply_one en s H2 H) as H1.
  destruct (apply_one en s) as [s1 go]; cbn [fst] in H1. destruct go; [apply IH; assumption | exact H1].
Qed.

Lemma ok_apply_entries : forall e s, S_ok s -> S_ok (fst (apply_entries e s)).
Proof.
  intros e s H; unfold apply_entries; cbv zeta.
  destruct (_ <? _); cbn; [|exact H]. apply ok_apply_list; [|exact H].
  apply Forall_get_entries. apply H.
Qed.

(* ---- commands ---- *)
Lemma node_ok_queue : forall n q, Forall (fun q => cmd_ok (fst q)) q -> node_ok n -> node_ok (n <| queue := q |>).
Proof.
  intros n q Hq (A1 & A2 & A3 & A4 & A5 & A6).
  split; [exact A1|]. split; [exact A2|]. split; [exact A3|]. split; [exact Hq|]. split; [exact A5 | exact A6].
Qed.

Lemma ok_submit : forall e c cbk s, cmd_ok c -> S_ok s -> S_ok (submit e c cbk s).
Proof.
  intros e c cbk s Hc H; unfold submit. destruct (_ <? _); [apply ok_call_err; exact H|].
  apply ok_upd; [|exact H]. intros n Hn. apply node_ok_queue; [|exact Hn].
  apply Forall_app; split; [apply Hn | repeat constructor; exact Hc].
Qed.

Lemma ok_change_cluster : forall add x s, vid x -> S_ok s -> S_ok (fst (change_cluster add x s)).
Proof.
  intros add x s Hx H; unfold change_cluster; cbv zeta.
  destruct (negb _); cbn; [exact H|].
  match goal with |- context [change_idx (nd ?X)] => assert (S_ok X) as H0 end.
  { destruct (change_idx (nd s)) as [ci|]; [|exact H]. destruct (ci <=? _); exact H. }
  match goal with |- context [change_idx (nd ?X)] => destruct (change_idx (nd X)) end; cbn; [exact H0|].
  apply ok_do_change_cluster; assumption.
Qed.

Lemma ok_check_one : forall e c cbk s, cmd_ok c -> S_ok s -> S_ok (check_one e c cbk s).
Proof.
  intros e c cbk s Hc H; unfold check_one; cbv zeta.
  destruct (role (nd s) =? LEADER).
  - assert (forall s1, S_ok s1 ->
              S_ok (let s := upd (log_add (mkEntry c (last_idx (log (nd s)) + 1) (term (nd s)))) s1 in
                    let s := match (if dyn (cf e) then membership_of c else None) with
                             | Some _ => upd (fun n => n <| change_idx := Some (last_idx (log (nd s)) + 1) |>) s | None => s end in
                    s)) as HA.
    { intros s1 H1; cbv zeta.
      assert (S_ok (upd (log_add (mkEntry c (last_idx (log (nd s)) + 1) (term (nd s)))) s1)) as H2
        by (apply ok_upd; [intros n Hn; apply node_ok_log_add; [exact Hc | exact Hn] | exact H1]).
      destruct (if dyn (cf e) then membership_of c else None); exact H2. }
    destruct (if dyn (cf e) then membership_of c else None) as [[a x]|] eqn:ER.
    + assert (vid x) as Hx.
      { destruct (dyn (cf e)); [|discriminate]. eapply membership_vid; eauto. }
      pose proof (ok_change_cluster a x s Hx H) as H1.
      destruct (change_cluster a x s) as [s1 acc]; cbn [fst] in H1.
      destruct acc.
      * specialize (HA s1 H1). cbv zeta in HA.
        destruct (use_batch (cf e)); [|apply ok_send_ae]; destruct cbk; try exact HA.
        all: try (apply ok_send; [exact I | exact HA]).
      * destruct cbk; [exact H1 | apply ok_emit; [exact I | exact H1] | apply ok_send; [exact I | exact H1]].
    + specialize (HA s H). cbv zeta in HA.
      destruct (use_batch (cf e)); [|apply ok_send_ae]; destruct cbk; try exact HA.
      all: try (apply ok_send; [exact I | exact HA]).
  - destruct (leader (nd s)); [|apply ok_call_err; exact H].
    destruct cbk; [apply ok_send; [exact Hc | exact H] | | apply ok_send; [exact I | exact H]].
    apply ok_send; [exact Hc|]. exact H.
Qed.

Lemma ok_check_loop : forall fuel e start s, S_ok s -> S_ok (check_loop fuel e start s).
Proof.
  intros fuel; induction fuel as [|f IH]; intros e start s H; cbn [check_loop]; [exact H|].
  destruct (_ <? _)%Z; [|exact H].
  assert (S_ok match queue (nd s) with
               | [] => s
               | (c, cbk) :: rest =>
                 if ok (check_one e c cbk (upd (fun n => n <| queue := rest |>) s))
                 then check_loop f e start (check_one e c cbk (upd (fun n => n <| queue := rest |>) s))
                 else check_one e c cbk (upd (fun n => n <| queue := rest |>) s)
               end) as HQ.
  { pose proof H as ((_ & _ & _ & Q & _) & _).
    destruct (queue (nd s)) as [|[c cbk] rest]; [exact H|]. inversion Q; subst.
    assert (S_ok (check_one e c cbk (upd (fun n => n <| queue := rest |>) s))) as H1.
    { apply ok_check_one; [assumption|]. apply ok_upd; [|exact H]. intros n Hn. apply node_ok_queue; assumption. }
    destruct (ok _); [apply IH; exact H1 | exact H1]. }
  destruct (leader (nd s)); [exact HQ|]. destruct (wait_leader (cf e)); [exact H | exact HQ].
Qed.

Lemma ok_check_commands : forall e s, S_ok s -> S_ok (check_commands e s).
Proof. intros; unfold check_commands; apply ok_check_loop; assumption. Qed.

(* ---- compaction ---- *)
Lemma Forall_cluster_before : forall n res cl,
  Forall entry_ok res -> Forall vid cl -> Forall vid (cluster_before n res cl).
Proof.
  intros n res; unfold cluster_before. induction res as [|en res IH]; intros cl Hr Hc; cbn [fold_left]; [exact Hc|].
  inversion Hr; subst. apply IH; [assumption|].
  destruct (membership_of (ecmd en)) as [[a x]|] eqn:E; [|exact Hc].
  destruct (self_is x n); [exact Hc|].
  destruct a; [apply Forall_sdel; exact Hc | apply Forall_sadd; [eapply membership_vid; eauto | exact Hc]].
Qed.

Lemma ok_try_compact : forall e s, S_ok s -> S_ok (try_compact e s).
Proof.
  intros e s H; unfold try_compact; cbv zeta.
  match goal with |- context [if pid (sr (nd s)) =? 1 then upd ?f ?X else ?X] =>
    assert (S_ok (if pid (sr (nd s)) =? 1 then upd f X else X)) as H0 end.
  { assert (S_ok (if pid (sr (nd s)) =? 0 then s
                  else upd (fun n => n <| sr := (sr n) <| pid := 0 |> <| trans := [] |> |>) s)) as HX.
    { destruct (_ =? 0); [exact H|]. apply ok_upd; [|exact H]. intros n Hn. apply node_ok_sr; [|exact Hn].
      destruct Hn as (_ & _ & _ & _ & _ & (Y1 & Y2 & Y3)). split; [exact Y1|]. split; [constructor | exact Y3]. }
    destruct (_ =? 1); [|exact HX]. apply ok_upd; [|exact HX].
    intros n Hn.
    assert (node_ok (n <| log := delete_to (log n) (cur_id (sr (nd s))) |>)) as Hl
      by (apply node_ok_log; [apply Forall_delete_to; apply Hn | exact Hn]).
    exact Hl. }
  destruct (negb _); [exact H0|].
  match type of H0 with S_ok ?X => set (Y := X) in * end. clearbody Y.
  match goal with |- context [if ?c then _ else _] => destruct c end; [exact H0|].
  pose proof H0 as ((O1 & O2 & O3 & _) & _).
  assert (Forall entry_ok (get_entries (log (nd Y)) (Some (applied (nd Y) - 1)) (Some 2) None)) as HG
    by (apply Forall_get_entries; exact O3).
  destruct (get_entries (log (nd Y)) (Some (applied (nd Y) - 1)) (Some 2) None) as [|e0 [|e1 r]]; try exact H0.
  destruct (opt_eqb _ _); [exact H0|].
  apply ok_upd; [|exact H0]. intros n Hn. apply node_ok_sr; [|exact Hn].
  destruct Hn as (_ & _ & _ & _ & _ & (Y1 & Y2 & Y3)). split; [|split; [exact Y2 | exact Y3]].
  cbn. inversion HG as [|? ? G0 G1]; subst. inversion G1; subst.
  split; [assumption|]. split; [assumption|].
  apply Forall_cluster_before; [apply Forall_rev; apply Forall_get_entries; exact O3|].
  destruct (self (nd Y)) as [i|] eqn:Es; [apply Forall_sadd; [apply O2; reflexivity | exact O1] | exact O1].
Qed.

(* ---- tick ---- *)
Lemma ok_tick_load : forall e s, S_ok s -> S_ok (tick_load e s).
Proof. intros e s H; unfold tick_load. destruct (_ && _); [apply ok_load_dump; exact H | exact H]. Qed.

Lemma ok_tick_timer : forall e s, S_ok s -> S_ok (tick_timer e s).
Proof. intros e s H; unfold tick_timer; cbv zeta. destruct (_ <? _)%Z; exact H. Qed.

Lemma ok_tick_election : forall e s, S_ok s -> S_ok (tick_election e s).
Proof.
  intros e s H; unfold tick_election; cbv zeta.
  destruct (self (nd s)) as [me|]; [|exact H]. destruct (_ && _); [|exact H].
  match goal with |- S_ok (if majority _ (nd ?X) then _ else _) => assert (S_ok X) as H0 end.
  { apply ok_on_leader_changed. apply ok_fold; [intros s0 x H0; apply ok_send; [exact I | exact H0]|].
    apply ok_upd; [intros n Hn; exact Hn|]. apply ok_set_role. exact H. }
  destruct (majority _ _); [apply ok_become_leader; exact H0 | exact H0].
Qed.

Lemma ok_commit_loop : forall f a b s, S_ok s -> S_ok (fst (commit_loop f a b s)).
Proof.
  intros f; induction f as [|f IH]; intros a b s H; cbn [commit_loop]; cbv zeta; [exact H|].
  destruct (_ <? _); [|exact H]. destruct (existsb _ _); [exact H|]. destruct (negb _); [exact H|].
  destruct (get_entries _ _ _ _); [apply IH; exact H|]. destruct (_ =? _); apply IH; exact H.
Qed.

Lemma ok_tick_leader : forall e s, S_ok s -> S_ok (tick_leader e s).
Proof.
  intros e s H; unfold tick_leader; cbv zeta.
  destruct (_ =? LEADER); [|exact H].
  match goal with |- context [commit_loop ?f ?a ?b s] =>
    pose proof (ok_commit_loop f a b s H) as H1; destruct (commit_loop f a b s) as [s1 nc]; cbn [fst] in H1 end.
  destruct (ok s1); [|exact H1].
  match goal with |- context [existsb ?f (others (nd ?X))] => assert (S_ok X) as H2 end.
  { destruct (_ =? nc); exact H1. }
  destruct (existsb _ _); [exact H2|]. destruct (negb _); [|exact H2].
  apply ok_upd; [intros n Hn; exact Hn|]. apply ok_set_role. exact H2.
Qed.

Lemma ok_tick_send : forall e need s, S_ok s -> S_ok (tick_send e need s).
Proof. intros e need s H; unfold tick_send. destruct (_ =? _); [|exact H]. destruct (_ || _); [apply ok_send_ae|]; exact H. Qed.

Lemma ok_tick_ready : forall s, S_ok s -> S_ok (tick_ready s).
Proof. intros s H; unfold tick_ready; cbv zeta. destruct (_ && _); exact H. Qed.

Lemma ok_andthen : forall f g s, (forall s, S_ok s -> S_ok (f s)) -> (forall s, S_ok s -> S_ok (g s)) -> S_ok s -> S_ok ((f ;; g) s).
Proof. intros f g s Hf Hg H; unfold andthen. destruct (ok (f s)); auto. Qed.

Theorem ok_on_tick : forall e n, node_ok n -> S_ok (on_tick e n).
Proof.
  intros e n Hn. unfold on_tick; cbv zeta.
  assert (S_ok (start_S e n)) as H0 by (split; [exact Hn | constructor]).
  revert H0. generalize (start_S e n). intros s H0.
  apply ok_andthen; [apply ok_tick_load | | exact H0]. clear s H0. intros s H0.
  apply ok_andthen; [apply ok_tick_timer | | exact H0]. clear s H0. intros s H0.
  apply ok_andthen; [apply ok_tick_election | | exact H0]. clear s H0. intros s H0.
  apply ok_andthen; [apply ok_tick_leader | | exact H0]. clear s H0. intros s H0.
  pose proof (ok_apply_entries e s H0) as H1. destruct (apply_entries e s) as [s1 need]; cbn [fst] in H1.
  destruct (ok s1); [|exact H1].
  revert H1; generalize s1; clear. intros s H0.
  apply ok_andthen; [apply ok_tick_send | | exact H0]. clear s H0. intros s H0.
  apply ok_andthen; [apply ok_tick_ready | | exact H0]. clear s H0. intros s H0.
  apply ok_andthen; [apply ok_check_commands | apply ok_try_compact | exact H0].
Qed.

(* ---- messages ---- *)
Lemma ok_ae_commit : forall c v s, S_ok s -> S_ok (ae_commit c v s).
Proof. intros c v s H; unfold ae_commit. destruct v; [destruct (_ <? c)|]; exact H. Qed.

Lemma ok_ae_regular : forall e from c prev new s, Forall entry_ok new -> S_ok s -> S_ok (ae_regular e from c prev new s).
Proof.
  intros e from c prev new s Hnew H; unfold ae_regular; cbv zeta.
  pose proof H as ((_ & _ & HL & _) & _).
  assert (Forall entry_ok (get_entries (log (nd s)) (option_map fst prev) None None)) as HP
    by (apply Forall_get_entries; exact HL).
  destruct (get_entries _ _ _ _) as [|p0 ptail]; [apply ok_send_next_idx; exact H|].
  destruct prev as [[pidx pterm]|]; [|apply ok_send_next_idx; exact H].
  destruct (negb _); [apply ok_send_next_idx; exact H|].
  apply ok_ae_commit. apply ok_send_next_idx.
  inversion HP as [|? ? _ HT]; subst.
  assert (Forall entry_ok (skipn (matched_prefix ptail new) ptail)) as HR by (apply Forall_skipn; exact HT).
  assert (Forall entry_ok (skipn (matched_prefix ptail new) new)) as HA by (apply Forall_skipn; exact Hnew).
  match goal with |- S_ok (if dyn _ then apply_membership false ?l ?X else ?X) => assert (S_ok X) as HX end.
  { apply ok_upd.
    - intros n Hn. apply node_ok_log; [|exact Hn]. apply Forall_app; split; [apply Hn | exact HA].
    - destruct (skipn _ ptail) as [|x xs] eqn:E1; [exact H|]. destruct (skipn _ new) as [|y ys] eqn:E2; [exact H|].
      apply ok_upd.
      + intros n Hn.
        assert (node_ok (n <| log := delete_from (log n) (pidx + 1 + N.of_nat (matched_prefix ptail new)) |>)) as Hl
          by (apply node_ok_log; [apply Forall_delete_from; apply Hn | exact Hn]).
        exact Hl.
      + destruct (dyn (cf e)); [|exact H]. apply ok_apply_membership; [|exact H].
        apply Forall_rev. exact HR. }
  destruct (dyn (cf e)); [|exact HX]. apply ok_apply_membership; [exact HA | exact HX].
Qed.

Lemma node_ok_recv : forall n r, Forall (fun p => entry_ok (fst (fst p))) r -> node_ok n -> node_ok (n <| recv_t := r |>).
Proof.
  intros n r Hr (A1 & A2 & A3 & A4 & A5 & A6).
  split; [exact A1|]. split; [exact A2|]. split; [exact A3|]. split; [exact A4|]. split; [exact Hr | exact A6].
Qed.

Lemma assemble_entry_ok : forall ps en, Forall (fun p => entry_ok (fst (fst p))) ps -> assemble_entry ps = Some en -> entry_ok en.
Proof.
  intros ps en H E; unfold assemble_entry in E. destruct ps as [|[[e0 o] l] r]; [discriminate|].
  destruct (pieces_ok _ _ _); [|discriminate]. inversion E; subst. inversion H; subst. assumption.
Qed.

Lemma ok_on_append_entries : forall e from m t c s, msg_ok m -> S_ok s -> S_ok (on_append_entries e from m t c s).
Proof.
  intros e from m t c s Hm H; unfold on_append_entries; cbv zeta.
  destruct (t <? _); [exact H|].
  match goal with |- S_ok match m with AE _ _ _ _ => ae_regular _ _ _ _ _ ?X | _ => _ end => assert (S_ok X) as HX end.
  { apply ok_upd; [intros n Hn; exact Hn|]. apply ok_set_role.
    match goal with |- S_ok (if ?c then upd ?f ?Y else ?Y) => assert (S_ok Y) as HY end.
    { apply ok_upd; [intros n Hn; exact Hn|]. destruct (opt_eqb _ _); [exact H | apply ok_on_leader_changed; exact H]. }
    destruct (_ <? t); exact HY. }
  match goal with |- S_ok match m with AE _ _ _ _ => ae_regular _ _ _ _ _ ?X | _ => _ end => set (Y := X) in * end.
  clearbody Y. destruct m; try exact HX; cbn in Hm.
  - apply ok_ae_regular; assumption.
  - destruct (lab =? 1).
    + apply ok_send_next_idx. apply ok_upd; [|exact HX]. intros n Hn. apply node_ok_recv; [repeat constructor; exact Hm | exact Hn].
    + pose proof HX as ((_ & _ & _ & _ & HR & _) & _).
      destruct (recv_t (nd Y)) as [|r0 rr] eqn:ER; [exact HX|]. cbv zeta.
      assert (S_ok (upd (fun n => n <| recv_t := recv_t n ++ [(e0, off, len)] |>) Y)) as HU.
      { apply ok_upd; [|exact HX]. intros n Hn. apply node_ok_recv; [|exact Hn].
        apply Forall_app; split; [apply Hn | repeat constructor; exact Hm]. }
      destruct (lab =? 2); [apply ok_send_next_idx; exact HU|].
      destruct (assemble_entry _) as [en'|] eqn:EA; [|exact HU].
      apply ok_ae_regular.
      * repeat constructor. eapply assemble_entry_ok; [|exact EA]. apply HU.
      * apply ok_upd; [|exact HU]. intros n Hn. apply node_ok_recv; [constructor | exact Hn].
  - pose proof (ok_set_transmission p Y Hm HX) as H1.
    destruct (set_transmission p Y) as [s1 done]; cbn [fst] in H1.
    destruct (_ && _); cbv zeta; [|destruct done]; apply ok_ae_commit; try exact H1.
    + apply ok_send_next_idx. apply ok_load_dump. exact H1.
    + apply ok_load_dump. exact H1.
Qed.

Theorem ok_on_message : forall e from m n, node_ok n -> msg_ok m -> S_ok (on_message e from m n).
Proof.
  intros e from m n Hn Hm. unfold on_message; cbv zeta.
  assert (S_ok (start_S e n)) as H0 by (split; [exact Hn | constructor]).
  revert H0. generalize (start_S e n). intros s H.
  destruct m as [t lli llt|t|? ? ? ?|? ? ? ? ? ? ?|? ? ?|cm req|req okr a b|t next reset success];
    try (apply ok_on_append_entries; assumption).
  - destruct (self (nd s)) as [me|]; [|exact H].
    match goal with |- S_ok (if (role (nd ?X) =? _) || _ then _ else _) => assert (S_ok X) as HX end.
    { destruct (_ <? t); [|exact H]. apply ok_upd; [intros n1 H1; exact H1|]. apply ok_set_role. exact H. }
    destruct (_ || _); [|exact HX]. destruct (_ <=? t); [|exact HX].
    destruct (llt <? _); [exact HX|]. destruct (_ && _); [exact HX|].
    destruct (voted _); [exact HX|]. apply ok_send; [exact I | exact HX].
  - destruct (_ && _); [|exact H]. destruct (majority _ _); [|exact H]. apply ok_become_leader. exact H.
  - apply ok_submit; [exact Hm | exact H].
  - destruct (aget req _); [|exact H]. destruct (negb okr); [apply ok_fire; exact H|].
    destruct (a <=? _); [apply ok_fire; exact H | exact H].
  - destruct (_ && _); [|exact H].
    match goal with |- S_ok (if ok ?X then _ else _) => assert (S_ok X) as HX end.
    { destruct success; [|destruct reset; exact H].
      destruct reset; (destruct (aget from _); [destruct (_ <? _)|]); exact H. }
    destruct (ok _); exact HX.
Qed.

(* ---- connection notifications, API, construction ---- *)
Lemma node_ok_on_connected : forall x n, node_ok n -> node_ok (on_connected x n).
Proof. intros x n H; unfold on_connected. destruct (_ <=? x); exact H. Qed.

Lemma node_ok_on_disconnected : forall x n, node_ok n -> node_ok (on_disconnected x n).
Proof.
  intros x n H; unfold on_disconnected.
  assert (ser_ok ((sr n) <| trans := adel x (trans (sr n)) |>)) as Hz.
  { destruct H as (_ & _ & _ & _ & _ & (Y1 & Y2 & Y3)). split; [exact Y1|]. split; [apply Forall_adel; exact Y2 | exact Y3]. }
  destruct (_ <=? x); (assert (node_ok (n <| sr := (sr n) <| trans := adel x (trans (sr n)) |> |>)) as Hn
                         by (apply node_ok_sr; assumption)); exact Hn.
Qed.

Lemma ok_api_submit : forall e c cbk n, node_ok n -> cmd_ok c -> S_ok (api_submit e c cbk n).
Proof. intros; unfold api_submit. apply ok_submit; [assumption | split; [assumption | constructor]]. Qed.

Lemma ok_api_admin : forall e c cbk n, node_ok n -> cmd_ok c -> S_ok (api_admin e c cbk n).
Proof.
  intros e c cbk n Hn Hc; unfold api_admin; cbv zeta.
  assert (S_ok (start_S e n)) as H0 by (split; [exact Hn | constructor]).
  destruct (dyn (cf e)); [apply ok_submit; assumption | exact H0].
Qed.

Lemma ok_api_setver : forall e c cbk n, node_ok n -> cmd_ok c -> S_ok (api_setver e c cbk n).
Proof.
  intros e c cbk n Hn Hc; unfold api_setver; cbv zeta.
  assert (S_ok (start_S e n)) as H0 by (split; [exact Hn | constructor]).
  destruct (_ || _); [exact H0 | apply ok_submit; assumption].
Qed.

Definition disk_ok (d : disk) : Prop := Forall entry_ok (d_log d) /\ oblob_ok (d_dump d).

Lemma node_ok_init : forall e me oth sv, Forall vid oth -> (forall i, me = Some i -> vid i) -> node_ok (init_node e me oth sv).
Proof.
  intros e me oth sv Ho Hme. unfold init_node.
  split; [exact Ho|]. split; [exact Hme|]. split; [repeat constructor; apply noop_ok|].
  split; [constructor|]. split; [constructor|]. split; [exact I|]. split; [constructor | exact I].
Qed.

Lemma node_ok_init_from_disk : forall e me oth sv d,
  Forall vid oth -> (forall i, me = Some i -> vid i) -> disk_ok d -> node_ok (init_from_disk e me oth sv d).
Proof.
  intros e me oth sv d Ho Hme (D1 & D2). unfold init_from_disk; cbv zeta.
  pose proof (node_ok_init e me oth sv Ho Hme) as H0.
  assert (ser_ok ((sr (init_node e me oth sv)) <| stored := d_dump d |>)) as Hz
    by (split; [exact D2|]; split; [constructor | exact I]).
  destruct (d_log d) as [|e0 l] eqn:E.
  - apply node_ok_sr; assumption.
  - assert (node_ok ((init_node e me oth sv) <| log := e0 :: l |>)) as H1 by (apply node_ok_log; assumption).
    assert (node_ok ((init_node e me oth sv) <| log := e0 :: l |> <| sr := (sr (init_node e me oth sv)) <| stored := d_dump d |> |>)) as H2
      by (apply node_ok_sr; assumption).
    exact H2.
Qed.

Lemma disk_of_ok : forall c n d, node_ok n -> disk_of c n = Some d -> disk_ok d.
Proof.
  intros c n d (A1 & A2 & A3 & A4 & A5 & (Y1 & _)) H. unfold disk_of in H.
  destruct (file_journal c); [|discriminate]. inversion H; subst. split; [exact A3|]. cbn.
  destruct (file_dump c); [exact Y1 | exact I].
Qed.
