(* C20: a reachable-state invariant that discharges a state hypothesis of C20_bound:
   a node that has not yet run its first tick (need_load = true) is a FOLLOWER. *)
From Coq Require Import ZArith NArith List Bool Lia ZifyBool ZifyN.
From RecordUpdate Require Import RecordSet.
From PSO Require Import Raft.Types Raft.Node Raft.Net.
From PSO Require Import Raft.ProofsReadonlyFrames Raft.ProofsReadonlyA Raft.ProofsReadonlyB.
From PSO Require Import Raft.ProofsFallbackA Raft.ProofsFallbackB.
Import ListNotations.
Import RecordSetNotations.
Open Scope N_scope.

(* need_load, once false, stays false *)
Definition nl (s s' : S) : Prop := need_load (nd s) = false -> need_load (nd s') = false.

Lemma nl_refl : forall s, nl s s. Proof. intros s H; exact H. Qed.
Lemma nl_trans : forall a b c, nl a b -> nl b c -> nl a c. Proof. unfold nl; auto. Qed.
Lemma fr_nl : forall m s s', fr m s s' -> nl s s'.
Proof. intros m s s' (ex & _ & _ & _ & _ & _ & _ & Nl & _); exact Nl. Qed.
Lemma nl_upd : forall f s, (forall n, need_load (f n) = need_load n) -> nl s (upd f s).
Proof. intros f s H Hn. cbn. rewrite H; exact Hn. Qed.
Lemma nl_emit : forall o s, nl s (emit o s). Proof. intros o s H; exact H. Qed.
Lemma nl_send : forall d m s, nl s (send d m s).
Proof. intros; unfold send. destruct (smem d _); [apply nl_emit | apply nl_refl]. Qed.
Lemma nl_set_role : forall r s, nl s (set_role r s).
Proof. intros r s H. unfold set_role; cbv zeta. destruct (_ =? r); exact H. Qed.
Lemma nl_fold : forall {A} (f : S -> A -> S) (l : list A) s, (forall s x, nl s (f s x)) -> nl s (fold_left f l s).
Proof.
  intros A f l; induction l as [|a l IH]; intros s H; cbn; [apply nl_refl|].
  eapply nl_trans; [apply H | apply IH; exact H].
Qed.
Lemma nl_if : forall (b : bool) s x y, nl s x -> nl s y -> nl s (if b then x else y).
Proof. intros [] s x y; auto. Qed.

Ltac nl0 :=
  lazymatch goal with
  | |- nl _ (set_role _ _) => apply nl_set_role
  | |- nl _ (upd _ _) => apply nl_upd; intros; reflexivity
  | |- nl _ (emit _ _) => apply nl_emit
  | |- nl _ (send _ _ _) => apply nl_send
  | |- _ => first [ apply (fr_nl true); fr0 | apply (fr_nl false); fr0 ]
  end.
Ltac nl1 := first [ apply nl_refl | nl0 ].
Ltac nlchain := repeat (first [ nl1 | eapply nl_trans; [| nl0] | apply nl_if ]).

Lemma nl_become_leader : forall e s, period_ok e -> nl s (become_leader e s).
Proof.
  intros e s Hp. unfold become_leader; cbv zeta.
  match goal with |- nl s (andthen ?f ?g ?X) => assert (nl s X) as H0 end.
  { eapply nl_trans; [|nl0].
    eapply nl_trans; [| apply nl_upd; intros n].
    - nlchain.
    - cbv beta. generalize (sunion (others n) (readonly n)). intros l; revert n.
      induction l as [|a l IH]; intros n; cbn; [reflexivity|]. rewrite IH; reflexivity. }
  unfold andthen.
  match goal with |- nl s (if ok ?Y then _ else _) => assert (nl s Y) as H1 end.
  { destruct (use_batch (cf e)); [exact H0|].
    eapply nl_trans; [exact H0 | apply (fr_nl true); apply fr_send_ae; exact Hp]. }
  destruct (ok _); [|exact H1].
  eapply nl_trans; [exact H1 | apply (fr_nl true); apply fr_send_ae; exact Hp].
Qed.

Lemma nl_tick_election : forall e s, period_ok e -> nl s (tick_election e s).
Proof.
  intros e s Hp; unfold tick_election; cbv zeta.
  destruct (self (nd s)) as [me|]; [|nl1].
  destruct (_ && _); [|nl1].
  match goal with |- nl s (if majority _ (nd ?X) then _ else _) => assert (nl s X) as H0 end.
  { eapply nl_trans; [| apply (fr_nl true); apply fr_on_leader_changed].
    eapply nl_trans; [| apply nl_fold; intros s0 x; apply nl_send].
    nlchain. }
  destruct (majority _ _); [|exact H0].
  eapply nl_trans; [exact H0 | apply nl_become_leader; exact Hp].
Qed.

Lemma nl_tick_leader : forall e s, nl s (tick_leader e s).
Proof. intros e s H. destruct (tick_leader_mem e s) as (_ & -> & _). exact H. Qed.

Lemma nl_andthen : forall f g s, nl s (f s) -> (forall s', nl s' (g s')) -> nl s ((f ;; g) s).
Proof.
  intros f g s Hf Hg; unfold andthen. destruct (ok (f s)); [|exact Hf].
  eapply nl_trans; [exact Hf | apply Hg].
Qed.

(* after any tick need_load is false *)
Lemma need_load_after_tick : forall e n, period_ok e -> need_load (nd (on_tick e n)) = false.
Proof.
  intros e n Hp. rewrite on_tick_eq.
  assert (need_load (nd (tick_load e (start_S e n))) = false) as H1 by reflexivity.
  unfold andthen at 1. destruct (ok (tick_load e (start_S e n))); [|exact H1].
  revert H1. generalize (tick_load e (start_S e n)). intros s1 H1.
  assert (nl s1 ((tick_timer e;; tick_election e;; tick_leader e;; tick_tail e) s1)) as H; [|apply H; exact H1].
  apply nl_andthen; [apply (fr_nl true); apply fr_tick_timer|]. intros s2.
  apply nl_andthen; [apply nl_tick_election; exact Hp|]. intros s3.
  apply nl_andthen; [apply nl_tick_leader|]. intros s4.
  apply (fr_nl true); apply fr_tick_tail; exact Hp.
Qed.

Lemma nl_on_message : forall e from m n, period_ok e -> nl (start_S e n) (on_message e from m n).
Proof.
  intros e from m n Hp. unfold on_message; cbv zeta.
  assert (forall t c s, nl s (on_append_entries e from m t c s)) as HAE.
  { intros. rewrite on_append_entries_eq. destruct (t <? _); [nl1|].
    eapply nl_trans; [| apply (fr_nl false); apply fr_ae_tail].
    unfold ae_head; cbv zeta. nlchain. }
  destruct m as [t lli llt|t|? ? ? ?|? ? ? ? ? ? ?|? ? ?|cm req|req okr a b|t next reset success]; try apply HAE.
  - destruct (self (nd (start_S e n))); [|nl1].
    match goal with |- nl ?s0 (if (role (nd ?X) =? _) || _ then _ else _) => assert (nl s0 X) as H0 end.
    { destruct (_ <? t); nlchain. }
    destruct (_ || _); [|exact H0]. destruct (_ <=? t); [|exact H0].
    destruct (llt <? _); [exact H0|]. destruct (_ && _); [exact H0|].
    destruct (voted _); [exact H0|]. eapply nl_trans; [exact H0|]. nlchain.
  - destruct (_ && _); [|nl1]. destruct (majority _ _); [|nl0].
    eapply nl_trans; [|apply nl_become_leader; exact Hp]. nl0.
  - apply (fr_nl true); apply fr_submit.
  - destruct (aget req _); [|nl1]. destruct (negb okr); [nlchain|]. destruct (a <=? _); nlchain.
  - destruct (_ && _); [|nl1].
    match goal with |- nl ?s0 (if ok ?X then _ else _) => assert (nl s0 X) as H0 end.
    { destruct success.
      - destruct reset; (destruct (aget from (match_idx _)); [destruct (_ <? _)|]); nlchain.
      - destruct reset; nlchain. }
    destruct (ok _); [|exact H0]. eapply nl_trans; [exact H0 | nl0].
Qed.

(* a follower stays a follower on every delivery, unless it already was something else *)
Lemma follower_on_message : forall e from m n, period_ok e ->
  role n = FOLLOWER -> role (nd (on_message e from m n)) = FOLLOWER.
Proof.
  intros e from m n Hp Hr. unfold on_message; cbv zeta.
  assert (forall s', fr false (start_S e n) s' -> role (nd s') = FOLLOWER) as HF.
  { intros s' F. destruct (core_fields _ _ (fr_core _ _ _ F)) as (_ & -> & _). exact Hr. }
  assert (forall t c, role (nd (on_append_entries e from m t c (start_S e n))) = FOLLOWER) as HAE.
  { intros t c. rewrite on_append_entries_eq. destruct (t <? _); [exact Hr|].
    destruct (core_fields _ _ (fr_core _ _ _ (fr_ae_tail e from m c (ae_head e from t c (start_S e n))))) as (_ & -> & _).
    unfold ae_head; cbv zeta. cbn [nd upd set role]. apply role_set_role. }
  destruct m as [t lli llt|t|? ? ? ?|? ? ? ? ? ? ?|? ? ?|cm req|req okr a b|t next reset success]; try apply HAE.
  - destruct (self (nd (start_S e n))); [|exact Hr].
    match goal with |- role (nd (if (role (nd ?X) =? _) || _ then _ else _)) = _ => assert (role (nd X) = FOLLOWER) as H0 end.
    { destruct (_ <? t); [|exact Hr]. cbn [nd upd set role]. apply role_set_role. }
    destruct (_ || _); [|exact H0]. destruct (_ <=? t); [|exact H0].
    destruct (llt <? _); [exact H0|]. destruct (_ && _); [exact H0|].
    destruct (voted _); [exact H0|]. rewrite nd_send. exact H0.
  - replace (role (nd (start_S e n)) =? CANDIDATE) with false by (cbn; rewrite Hr; reflexivity). exact Hr.
  - apply HF. apply fr_any. apply fr_submit.
  - apply HF. destruct (aget req _); [|fr1]. destruct (negb okr); [frchain|]. destruct (a <=? _); frchain.
  - replace (role (nd (start_S e n)) =? LEADER) with false by (cbn; rewrite Hr; reflexivity). exact Hr.
Qed.

Definition fresh_is_follower (n : node) : Prop := need_load n = true -> role n = FOLLOWER.

Lemma fresh_is_follower_step : forall c g ev x pre s,
  conf_period_ok c -> nstep c g ev x pre s ->
  (forall n, pre = Some n -> fresh_is_follower n) -> fresh_is_follower (nd s).
Proof.
  intros c g ev x pre s Hp Hn Hpre. inversion Hn; subst.
  - intros HH. rewrite need_load_after_tick in HH by exact Hp. discriminate HH.
  - intros HH. apply follower_on_message; [exact Hp|]. apply (Hpre _ eq_refl).
    destruct (need_load x0) eqn:E; [reflexivity|]. rewrite (nl_on_message (mk_env c now rnd DEFAULT_BUDGET ord 0) a m x0 Hp E) in HH. discriminate HH.
  - cbn. unfold fresh_is_follower, on_disconnected. destruct (_ <=? b); cbn; apply (Hpre _ eq_refl).
  - cbn. unfold fresh_is_follower, on_connected. destruct (_ <=? b); cbn; apply (Hpre _ eq_refl).
  - pose proof (fr_api_submit (mk_env c 0 0 DEFAULT_BUDGET [] 0) cm (cb_of cb) x0) as F.
    intros HH. destruct (core_fields _ _ (fr_core _ _ _ F)) as (_ & -> & _). apply (Hpre _ eq_refl).
    destruct (need_load x0) eqn:E; [reflexivity|]. rewrite (fr_nl _ _ _ F E) in HH. discriminate HH.
  - pose proof (fr_api_admin (mk_env c 0 0 DEFAULT_BUDGET [] 0) cm (cb_of cb) x0) as F.
    intros HH. destruct (core_fields _ _ (fr_core _ _ _ F)) as (_ & -> & _). apply (Hpre _ eq_refl).
    destruct (need_load x0) eqn:E; [reflexivity|]. rewrite (fr_nl _ _ _ F E) in HH. discriminate HH.
  - pose proof (fr_api_setver (mk_env c 0 0 DEFAULT_BUDGET [] 0) cm (cb_of cb) x0) as F.
    intros HH. destruct (core_fields _ _ (fr_core _ _ _ F)) as (_ & -> & _). apply (Hpre _ eq_refl).
    destruct (need_load x0) eqn:E; [reflexivity|]. rewrite (fr_nl _ _ _ F E) in HH. discriminate HH.
  - cbn. apply (Hpre _ eq_refl).
  - intros _. cbn. unfold restart_node; cbv zeta.
    destruct (aget x (disks g)) as [d|]; [|reflexivity].
    destruct (if RO_BASE <=? x then None else Some x); [|reflexivity].
    unfold init_from_disk; cbv zeta. destruct (d_log d); reflexivity.
Qed.

Theorem leader_has_ticked : forall c g L n,
  conf_period_ok c -> reachable c g -> aget L (nodes g) = Some n -> role n <> FOLLOWER -> need_load n = false.
Proof.
  intros c g L n Hp Hr Hx Hrole.
  assert (all_nodes (fun _ n => fresh_is_follower n) g) as HI.
  { eapply reachable_inv with (P := all_nodes (fun _ n => fresh_is_follower n)); [| |exact Hr].
    - intros x m [].
    - intros g0 ev g' r HI _ H. eapply all_nodes_step; [exact HI | exact H|].
      intros x pre s Hn. eapply fresh_is_follower_step; [exact Hp | exact Hn|].
      intros m ->. exact (all_nodes_pre (fun _ n => fresh_is_follower n) _ _ _ _ _ _ HI Hn). }
  destruct (need_load n) eqn:E; [|reflexivity].
  exfalso. apply Hrole. apply (HI L n (aget_In _ _ _ Hx) E).
Qed.
