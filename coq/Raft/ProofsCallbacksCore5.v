(* C02 x Tier C5: the link between the callback contract and the refinement, lifted to the Tier C5
   fragment (hypotheses exactly as in Props/TierC5.v: dyn = false, 1 < batch, valid V evs, run_ok5; dump
   files, chunked entries, compaction, snapshot install and snapshots refused for their code version are
   all inside).  Port of ProofsCallbacksCore3 against Refine5Main / Refine5Final.  Two real differences:
   (1) file_dump may be true: the node-level analysis of a tick is taken from ProofsCallbacksCore5Node
       (under the dump-file condition tickp, which run_ok5 provides for every tick of the run);
   (2) `applied <= commit` is not an invariant of this fragment (H_ac is gone): `applied <= last index`,
       which is all the tick analysis needs, is read off the relation field Rn_applied instead.
   The ghost invariant (NodeInv / SubInv, llog_has, ...) is the one of ProofsCallbacksCore3: those
   definitions and their monotonicity lemmas do not depend on the fragment and are reused. *)
From Coq Require Import ZArith NArith List Bool Lia ZifyBool Arith PeanoNat.
From RecordUpdate Require Import RecordSet.
From PSO Require Import Raft.Types Raft.Node Raft.Net Raft.Obs Raft.ProofsCommitBase.
From PSO Require Import Raft.ProofsApplyBase Raft.ProofsApply Raft.ProofsApplyLog Raft.ProofsCallbacks Raft.ProofsCallbacks2
  Raft.ProofsApplyWf.
From PSO Require Import Raft.ProofsElectionGhost.
From PSO Require Import Raft.RefineAbs Raft.Refine5Abs Raft.Refine5Main Raft.Refine5Final.
From PSO Require Raft.ProofsCommitLog Raft.ProofsCallbacksCore Raft.ProofsCallbacksCore2 Raft.ProofsCallbacksFull2
  Raft.ProofsCallbacksCore3 Raft.ProofsCallbacksCore5Node Raft.ProofsElectionMain Raft.ProofsElectionFrame2 Raft.Refine5Sim.
Import ListNotations.
Import RecordSetNotations.
Open Scope N_scope.

Ltac frs := intros; reflexivity.

Notation tickp := ProofsElectionFrame2.tickp.
Notation tick_ok := ProofsElectionMain.tick_ok.
Notation grows2_tick_pre := ProofsCallbacksCore5Node.grows2_tick_pre.
Notation applied_tick_pre := ProofsCallbacksCore5Node.applied_tick_pre.
Notation log_wf_tick_pre := ProofsCallbacksCore5Node.log_wf_tick_pre.
Notation quiet_tick_pre := ProofsCallbacksCore5Node.quiet_tick_pre.
Notation on_tick_res := ProofsCallbacksCore5Node.on_tick_res.
Notation tick_body_after_pre := ProofsCallbacksCore2.tick_body_after_pre.
Notation try_compact_log := ProofsCallbacksCore2.try_compact_log.
Notation In_delete_to_kept := ProofsCallbacksCore2.In_delete_to_kept.
Notation submitted := ProofsCallbacksFull2.submitted.
Notation wr_ids := ProofsCallbacksFull2.wr_ids.
Notation wr_ids_In := ProofsCallbacksFull2.wr_ids_In.
Notation fwd_run := ProofsCallbacksFull2.fwd_run.
Notation old_sub := ProofsCallbacksFull2.old_sub.
Notation subs_of_In := ProofsCallbacksFull2.subs_of_In.
Notation local_subs_app := ProofsCallbacksFull2.local_subs_app.
Notation llog_has := ProofsCallbacksCore3.llog_has.
Notation NodeInv := ProofsCallbacksCore3.NodeInv.
Notation NI_q := ProofsCallbacksCore3.NI_q.
Notation NI_wc := ProofsCallbacksCore3.NI_wc.
Notation NI_wr := ProofsCallbacksCore3.NI_wr.
Notation SubInv := ProofsCallbacksCore3.SubInv.
Notation SubInv_init := ProofsCallbacksCore3.SubInv_init.
Notation llog_mono := ProofsCallbacksCore3.llog_mono.
Notation llog_has_mono := ProofsCallbacksCore3.llog_has_mono.
Notation llog_mono_kstar := ProofsCallbacksCore3.llog_mono_kstar.
Notation submitted_mono := ProofsCallbacksCore3.submitted_mono.
Notation NodeInv_mono := ProofsCallbacksCore3.NodeInv_mono.
Notation stepped_inv := ProofsCallbacksCore3.stepped_inv.
Notation cb_of_local := ProofsCallbacksCore3.cb_of_local.
Notation submit_queue := ProofsCallbacksCore3.submit_queue.
Notation old_sub_refl := ProofsCallbacksCore3.old_sub_refl.
Notation not_in_dec := ProofsCallbacksCore3.not_in_dec.

Lemma suffix_log_wf l full : wf1 full -> suffix_of l full -> ProofsApplyLog.log_wf l.
Proof.
  intros W Sx. destruct (suffix_base l full W Sx) as (b & E & Hb & Hf).
  split; [apply (suffix_ne l full Sx)|]. rewrite Hf.
  apply ProofsCallbacksCore.consec_of_nth. intros p e Hp.
  rewrite E, nth_error_skipn in Hp. destruct W as [_ H]. specialize (H _ _ Hp). lia.
Qed.

(* the dump-file condition of the tick of node n, from the run-level check *)
Lemma tickp_of_okb c g n now rnd bud ord sl x :
  tick_okb c g (ETick n now rnd bud ord sl) = true -> aget n (nodes g) = Some x ->
  tickp (mk_env c now rnd bud ord sl) x.
Proof. intros H Hx. exact (tick_okb_ok c g _ H x Hx). Qed.

Lemma run_ok5_head c evs1 ev evs2 g1 :
  run_trace c ginit evs1 = Some g1 -> run_ok5 c ginit (evs1 ++ ev :: evs2) = true -> tick_okb c g1 ev = true.
Proof.
  intros R1 H. rewrite (run_ok5_app c ginit evs1 _ g1 R1) in H. apply andb_true_iff in H as [_ H].
  cbn [run_ok5] in H. apply andb_true_iff in H as [H _]. exact H.
Qed.

(* a committed entry is the one every voter holds at that index, from then on                 *)

Section Core5.
Variables (c : conf) (V : list nid).

Lemma committed_everywhere5 evsA evsB gA gB x xA en :
  core_frag5 c V (evsA ++ evsB) -> run_trace c ginit evsA = Some gA -> run_trace c gA evsB = Some gB ->
  aget x (nodes gA) = Some xA -> x < RO_BASE -> In en (log xA) -> eidx en <= commit xA ->
  forall b xb eb, aget b (nodes gB) = Some xb -> b < RO_BASE -> In eb (log xb) -> eidx eb = eidx en ->
                  eidx en <= commit xb -> eb = en.
Proof.
  intros F RA RB Hx Hlt Hen Hic b xb eb Hb Hbl Heb Hi Hcb.
  destruct (core_frag_facts c V _ F) as (ND & HV & HNE & Hb1 & Hd & _).
  destruct (run_GI2 c V evsA evsB gA gB F RA RB) as (ghA & stA & sA & ghB & stB & sB & GA & GB & K).
  pose proof (GI_node c V gA ghA stA sA GA x xA Hx Hlt) as RxA.
  pose proof (GI_node c V gB ghB stB sB GB b xb Hb Hbl) as Rb.
  destruct (GI_full c V ND HV HNE Hb1 gA ghA stA sA GA x xA Hx Hlt) as (fA & EA & WA & XA).
  destruct (GI_full c V ND HV HNE Hb1 gB ghB stB sB GB b xb Hb Hbl) as (fb & Eb & Wb & Xb).
  pose proof (GI_reach c V gA ghA stA sA GA) as HRA. pose proof (GI_reach c V gB ghB stB sB GB) as HRB.
  destruct (stable_star c V ND HV HNE Hb1 sA sB (n2 x) HRA K) as [C Fx].
  rewrite (Rn_commit _ _ _ _ _ RxA) in C, Fx. rewrite EA in Fx.
  destruct (In_full_nth _ _ _ WA XA Hen) as [NA PA]. destruct (In_full_nth _ _ _ Wb Xb Heb) as [Nb Pb].
  assert (Hnd : NoDup (absV V)) by (apply (Refine5Sim.V'_nodup c V ND HV HNE Hb1)).
  assert (Hne' : absV V <> nil) by (apply (Refine5Sim.V'_ne c V ND HV HNE Hb1)).
  destruct (S7.k_state_machine_safety (absV V) Hnd Hne' sB (n2 x) (n2 b) (N.to_nat (eidx en) - 1)%nat HRB) as [E _].
  { assert (N.to_nat (eidx en) <= N.to_nat (commit xA))%nat by lia. assert (1 <= N.to_nat (eidx en))%nat by lia. lia. }
  { rewrite (Rn_commit _ _ _ _ _ Rb).
    assert (N.to_nat (eidx en) <= N.to_nat (commit xb))%nat by lia. assert (1 <= N.to_nat (eidx en))%nat by lia. lia. }
  rewrite Eb in E.
  assert (E2 : nth_error (M.log (M.nodes sB (n2 x))) (N.to_nat (eidx en) - 1) =
               nth_error (absL (pk c) fA) (N.to_nat (eidx en) - 1)).
  { apply (ML.firstn_eq_nth _ _ _ _ Fx).
    assert (N.to_nat (eidx en) <= N.to_nat (commit xA))%nat by lia. assert (1 <= N.to_nat (eidx en))%nat by lia. lia. }
  rewrite E2 in E. apply (nth_abs_inj c) in E. rewrite NA in E. rewrite Hi in Nb. rewrite Nb in E. congruence.
Qed.

Lemma core5_node evs1 evs2 g1 g2 a xa :
  core_frag5 c V (evs1 ++ evs2) -> run_trace c ginit evs1 = Some g1 -> run_trace c g1 evs2 = Some g2 ->
  aget a (nodes g1) = Some xa -> a < RO_BASE -> ProofsApplyLog.log_wf (log xa) /\ Hn c xa.
Proof.
  intros F R1 R2 Ha Hlt.
  destruct (core_frag_facts c V _ F) as (ND & HV & HNE & Hb1 & Hd & _).
  destruct (run_GI2 c V evs1 evs2 g1 g2 F R1 R2) as (gh1 & st1 & s1 & _ & _ & _ & G1 & _ & _).
  destruct (GI_full c V ND HV HNE Hb1 g1 gh1 st1 s1 G1 a xa Ha Hlt) as (fa & Ea & Wa & Xa).
  split; [apply (suffix_log_wf _ fa Wa Xa)|].
  apply (R_hyg c V g1 gh1 st1 s1 (GI_R c V g1 gh1 st1 s1 G1) a xa Ha Hlt).
Qed.

End Core5.

(* ------------------------------------------------------------------------------------------ *)
(* C02_success_is_committed_core5                                                             *)

Theorem success_is_committed_core5_partial :
  forall (c : conf) (V : list nid) (evs1 : list event) (ev : event) (evs2 : list event)
         (g1 g2 g3 : gstate) (x : nid) (s : S) (id r : N),
  dyn c = false -> 1 < batch c ->
  valid V (evs1 ++ ev :: evs2) = true -> run_ok5 c ginit (evs1 ++ ev :: evs2) = true ->
  run_trace c ginit evs1 = Some g1 -> gstep c g1 ev = Some (g2, Some (x, s)) -> x < RO_BASE ->
  In (id, r, SUCCESS) (fired (outs s)) ->
  run_trace c g2 evs2 = Some g3 ->
  exists en x0 now rnd bud ord sl,
    ev = ETick x now rnd bud ord sl /\ aget x (nodes g1) = Some x0 /\
    aget x (nodes g2) = Some (nd s) /\
    In en (log (nd s)) /\ applied x0 < eidx en /\ eidx en <= commit (nd s) /\
    In (eterm en, id)
       (local_subs (subs_of (eidx en)
          (wait_commit (nd (tick_pre (mk_env c now rnd bud ord sl) (start_S (mk_env c now rnd bud ord sl) x0)))))) /\
    forall b xb eb, aget b (nodes g3) = Some xb -> b < RO_BASE -> In eb (log xb) -> eidx eb = eidx en ->
                    eidx en <= commit xb -> eb = en.
Proof.
  intros c V evs1 ev evs2 g1 g2 g3 x s id r Hd Hb Hv Hok R1 ST Hx Hin R3.
  assert (F : core_frag5 c V (evs1 ++ ev :: evs2)) by (apply core_frag_intro; assumption).
  pose proof (run_ok5_head c evs1 ev evs2 g1 R1 Hok) as Htb.
  pose proof (success_local c evs1 g1 ev g2 (Some (x, s)) R1 ST) as SO.
  assert (Rrest : run_trace c g1 (ev :: evs2) = Some g3) by (cbn; now rewrite ST).
  destruct ev as [n now rnd bud ord sl|a b now rnd ord|a b|a b k|a b|n cm cb|n cm cb|n cm cb|n|n|n oth now rnd sv];
    cbn [step_outcomes_ok] in SO;
    try (exfalso; rewrite Forall_forall in SO; exact (ProofsCallbacksCore.not_final_success id r (SO _ Hin))).
  destruct SO as (x0 & Hx0 & SO). cbv zeta in SO.
  pose proof (tickp_of_okb c g1 n now rnd bud ord sl x0 Htb Hx0) as Hf.
  unfold gstep in ST. rewrite Hx0 in ST. injection ST as Hg2 Hn Hs. subst n.
  set (e := mk_env c now rnd bud ord sl) in *.
  assert (Hs' : s = on_tick e x0) by (symmetry; exact Hs). clear Hs.
  destruct SO as (F0 & F2 & Hfired & NF0 & NF2).
  set (s0 := tick_pre e (start_S e x0)) in *.
  assert (Hmid : ok s0 = true /\ In (id, r, SUCCESS) (fired_list (hist (nd s0)) (wait_commit (nd s0)) (applied_in_tick s0))).
  { rewrite Hfired in Hin. apply in_app_or in Hin. destruct Hin as [Hin|Hin].
    - exfalso. rewrite Forall_forall in NF0. exact (ProofsCallbacksCore.not_final_success id r (NF0 _ Hin)).
    - apply in_app_or in Hin. destruct Hin as [Hin|Hin].
      + destruct (ok s0); [auto|contradiction].
      + exfalso. rewrite Forall_forall in NF2. exact (ProofsCallbacksCore.not_final_success id r (NF2 _ Hin)). }
  destruct Hmid as [Hok0 Hmid].
  (* the node before the step *)
  destruct (core5_node c V evs1 _ g1 g3 x x0 F R1 Rrest Hx0 Hx) as [W0 H0].
  pose proof (grows2_tick_pre e x0 Hf) as (P0 & Cu0 & [a0 L0]). fold s0 in P0, Cu0, L0.
  pose proof (applied_tick_pre e x0 Hf) as A0. fold s0 in A0.
  pose proof (log_wf_tick_pre e x0 Hf W0) as W1. fold s0 in W1.
  destruct (tick_body_after_pre e x0 W1) as ((Pb & Cub & [ab Lb]) & Cb & Wb). fold s0 in Pb, Cub, Lb, Cb.
  set (sb := tick_body e (start_S e x0)) in *.
  (* the executed entries *)
  destruct (apply_consecutive e s0 W1) as (AC1 & (pa & pb & AC2) & AC3 & AC4 & _ & AC6 & _).
  change (applied_now s0) with (applied_in_tick s0) in *.
  destruct (apply_outcome_origin s0 id r SUCCESS AC3 Hmid) as (pre & en & post & t & Hsplit & Hsub & Hcase).
  destruct Hcase as [(_ & Ht & _)|(Hbad & _)]; [|discriminate]. subst t.
  assert (Hin_es : In en (applied_in_tick s0)) by (rewrite Hsplit; apply in_or_app; right; now left).
  assert (Hin_log : In en (log (nd s0))).
  { rewrite AC2. apply in_or_app. right. apply in_or_app. now left. }
  pose proof (consec_in _ _ _ AC1 Hin_es) as Hr.
  assert (Hlen : (0 < length (applied_in_tick s0))%nat) by (rewrite Hsplit, app_length; cbn; lia).
  assert (Hlo : applied x0 < eidx en) by lia.
  assert (Hic0 : eidx en <= commit (nd s0)) by lia.
  assert (Hin_b : In en (log (nd sb))) by (rewrite Lb; apply in_or_app; now left).
  (* the compaction step keeps it *)
  assert (Hfin : In en (log (nd s)) /\ commit (nd s) = commit (nd s0)).
  { rewrite Hs', on_tick_body, andthen_apply. fold sb.
    destruct (ok sb); [|split; [exact Hin_b|exact Cb]].
    split; [|rewrite (fr_try_compact commit) by frs; exact Cb].
    rewrite try_compact_log. destruct (pid (sr (nd sb)) =? 1) eqn:Ep; [|exact Hin_b].
    apply N.eqb_eq in Ep. apply (In_delete_to_kept _ _ _ Wb Hin_b).
    assert (Hp0 : pid (sr x0) = 1) by congruence.
    pose proof (H_cur _ _ H0 Hp0) as Hc. rewrite Cub, Cu0. lia. }
  destruct Hfin as [Hin_s Cs].
  assert (Hx2 : aget x (nodes g2) = Some (nd s)).
  { rewrite <- Hg2, nodes_finish, aget_aset, N.eqb_refl. now rewrite Hs'. }
  assert (RA : run_trace c ginit (evs1 ++ [ETick x now rnd bud ord sl]) = Some g2).
  { apply (ProofsCallbacksCore.run_trace_snoc c ginit evs1 g1 _ g2 (Some (x, on_tick e x0)) R1).
    unfold gstep. rewrite Hx0. rewrite <- Hg2. reflexivity. }
  assert (F' : core_frag5 c V ((evs1 ++ [ETick x now rnd bud ord sl]) ++ evs2)) by (rewrite <- app_assoc; exact F).
  exists en, x0, now, rnd, bud, ord, sl.
  split; [reflexivity|]. split; [exact Hx0|]. split; [exact Hx2|]. split; [exact Hin_s|].
  split; [exact Hlo|]. split; [rewrite Cs; exact Hic0|]. split; [exact Hsub|].
  assert (Hic : eidx en <= commit (nd s)) by (rewrite Cs; exact Hic0).
  apply (committed_everywhere5 c V _ evs2 g2 g3 x (nd s) en F' RA R3 Hx2 Hx Hin_s Hic).
Qed.

(* ------------------------------------------------------------------------------------------ *)
(* the ghost invariant for the id -> command link                                            *)

Section Ghost.
Variables (c : conf) (V : list nid).
Hypothesis NDV : NoDup V.
Hypothesis VRO : forall v, In v V -> v < RO_BASE.
Hypothesis VNE : V <> [].
Hypothesis Hb1 : 1 < batch c.
Hypothesis Hdyn : dyn c = false.

Notation GI := (GI c V).

(* an entry held by a voter sits in the abstract leader log of its term, at its index *)
Lemma entry_in_llog g gh st s x xn en :
  GI g gh st s -> aget x (nodes g) = Some xn -> x < RO_BASE -> In en (log xn) ->
  nth_error (M.llog s (n2 (eterm en))) (n2 (eidx en) - 1) = Some (absE (pk c) en).
Proof.
  intros G Hx Hlt Hin.
  destruct (GI_full c V NDV VRO VNE Hb1 g gh st s G x xn Hx Hlt) as (full & E & W & X).
  destruct (In_full_nth _ _ _ W X Hin) as [Nn _].
  pose proof (GI_reach c V g gh st s G) as HR.
  pose proof (S3.inv3_kreachable (absV V) s HR) as H3.
  pose proof (S3.I3_in _ H3 (n2 x)) as I.
  specialize (I (n2 (eidx en) - 1)%nat (absE (pk c) en)).
  rewrite E, absL_nth, Nn in I. exact (I eq_refl).
Qed.

(* facts about a running voter needed by the tick analysis.  `applied <= last index` comes from
   Rn_applied (the applied prefix is a committed prefix of the node's full log), not from
   `applied <= commit`, which does not hold in this fragment *)
Lemma node_facts g gh st s x xn :
  GI g gh st s -> aget x (nodes g) = Some xn -> x < RO_BASE ->
  ProofsApplyLog.log_wf (log xn) /\ applied xn <= last_idx (log xn) /\
  (pid (sr xn) = 1 -> cur_id (sr xn) < applied xn).
Proof.
  intros G Hx Hlt.
  destruct (GI_full c V NDV VRO VNE Hb1 g gh st s G x xn Hx Hlt) as (full & E & W & X).
  pose proof (suffix_log_wf _ full W X) as Wl.
  pose proof (R_hyg c V g gh st s (GI_R c V g gh st s G) x xn Hx Hlt) as H.
  split; [exact Wl|]. split; [|apply (H_cur _ _ H)].
  destruct (Rn_applied _ _ _ _ _ (GI_node c V g gh st s G x xn Hx Hlt)) as [Hc _].
  rewrite E, absL_length in Hc.
  rewrite (suffix_last_idx _ _ X), (wf1_last_idx _ W). lia.
Qed.

(* one global step *)
Lemma step_subinv g gh st s hist fw ev g1 r gh1 st1 s1 :
  GI g gh st s -> SubInv c g s hist fw -> tick_ok c g ev ->
  gstep c g ev = Some (g1, r) -> GI g1 gh1 st1 s1 -> kstar V s s1 ->
  SubInv c g1 s1 (hist ++ [ev])
         (fw ++ match r with Some (_, S0) => wr_ids (wait_reply (nd S0)) | None => [] end).
Proof.
  intros G I Htk ST G1 K.
  pose proof (llog_mono_kstar V s s1 (GI_reach c V g gh st s G) K) as M.
  assert (Old : forall p, In p (nodes g) -> fst p < RO_BASE ->
                forall fw', NodeInv c (fst p) (snd p) s1 (hist ++ [ev]) (fw ++ fw')).
  { intros p Hp Hlt fw'. apply (NodeInv_mono c (fst p) (snd p) s s1 hist [ev] fw fw' M). now apply I. }
  (* the generic shape: the stepped node n was x, is now xn' *)
  assert (Stepped : forall n x (S0 : S),
            aget n (nodes g) = Some x ->
            nodes g1 = aset n (nd S0) (nodes g) -> r = Some (n, S0) ->
            (n < RO_BASE -> forall cm id, In (cm, CbLocal id) (queue (nd S0)) ->
               In (cm, CbLocal id) (queue x) \/ submitted n cm id (hist ++ [ev])) ->
            (n < RO_BASE -> forall i subs t id, In (i, subs) (wait_commit (nd S0)) -> In (t, id) (local_subs subs) ->
               old_sub (wait_commit x) i t id \/ In id fw \/
               exists cm, submitted n cm id (hist ++ [ev]) /\ llog_has c s1 i t cm) ->
            SubInv c g1 s1 (hist ++ [ev])
              (fw ++ match r with Some (_, S1) => wr_ids (wait_reply (nd S1)) | None => [] end)).
  { intros n x S0 Hx Hn -> Hq Hw p Hp Hlt. rewrite Hn in Hp. apply ProofsCommitLog.In_aset in Hp.
    destruct Hp as [->|Hp]; [|now apply Old]. cbn [fst snd] in *.
    apply (stepped_inv c n x (nd S0) s s1 hist ev fw M); [|now apply Hq|now apply Hw].
    apply (I (n, x)); [now apply ProofsCommitLog.aget_In|exact Hlt]. }
  destruct ev as [n now rnd bud ord sl|a b now rnd ord|a b|a b k|a b|n cm cb|n cm cb|n cm cb|n|n|n oth now rnd sv];
    unfold gstep in ST; cbv zeta in ST.
  - (* tick *)
    destruct (aget n (nodes g)) as [x|] eqn:Hx; [|discriminate]. injection ST as <- <-.
    set (e := mk_env c now rnd bud ord sl).
    assert (Hfd : tickp e x) by (exact (Htk x Hx)).
    apply (Stepped n x (on_tick e x) Hx); [apply nodes_finish|reflexivity| |].
    + intros Hlt cm id Hq. left.
      destruct (node_facts g gh st s n x G Hx Hlt) as (W0 & Hal & Hcur).
      destruct (on_tick_res e x Hfd W0 Hal Hcur) as [T1 _]. auto.
    + intros Hlt i subs t id Hp Ht.
      destruct (node_facts g gh st s n x G Hx Hlt) as (W0 & Hal & Hcur).
      destruct (on_tick_res e x Hfd W0 Hal Hcur) as [_ T2].
      destruct (T2 i subs t id Hp Ht) as [Ho|(cm & Hq & He & _)]; [now left|].
      right. right. exists cm. split.
      * apply submitted_mono. apply (NI_q _ _ _ _ _ _ (I (n, x) (ProofsCommitLog.aget_In _ _ _ Hx) Hlt)). exact Hq.
      * assert (Hx1 : aget n (nodes (finish n (on_tick e x) g)) = Some (nd (on_tick e x))).
        { rewrite nodes_finish, aget_aset, N.eqb_refl. reflexivity. }
        pose proof (entry_in_llog _ gh1 st1 s1 n _ (mkEntry cm i t) G1 Hx1 Hlt He) as L. exact L.
  - (* deliver *)
    destruct (aget b (nodes g)) as [x|] eqn:Hx; [|discriminate].
    destruct (chan_get a b g) as [|m rest] eqn:Ec; [discriminate|]. injection ST as <- <-.
    set (e := mk_env c now rnd DEFAULT_BUDGET ord 0).
    apply (Stepped b x (on_message e a m x) Hx); [rewrite nodes_finish, nodes_chan_set; reflexivity|reflexivity| |].
    + intros Hlt cm id Hq. left.
      destruct m as [t lli llt|t|t cc prev es|t cc prev lab off len en|t cc p|c0 req|req okr a0 b0|t nx r0 su].
      * now rewrite (fr_msg_request_vote queue) in Hq by frs.
      * now rewrite (fr_msg_response_vote queue) in Hq by frs.
      * unfold on_message in Hq. now rewrite (fr_on_append_entries queue) in Hq by frs.
      * unfold on_message in Hq. now rewrite (fr_on_append_entries queue) in Hq by frs.
      * unfold on_message in Hq. now rewrite (fr_on_append_entries queue) in Hq by frs.
      * unfold on_message in Hq. apply submit_queue in Hq. destruct Hq as [Hq|Hq]; [exact Hq|].
        destruct req; inversion Hq.
      * now rewrite (fr_msg_apply_resp queue) in Hq by frs.
      * now rewrite (fr_msg_next_idx queue) in Hq by frs.
    + intros Hlt i subs t id Hp Ht.
      destruct m as [t0 lli llt|t0|t0 cc prev es|t0 cc prev lab off len en|t0 cc p|c0 req|req okr a0 b0|t0 nx r0 su].
      * rewrite (fr_msg_request_vote wait_commit) in Hp by frs. left. eapply old_sub_refl; eauto.
      * rewrite (fr_msg_response_vote wait_commit) in Hp by frs. left. eapply old_sub_refl; eauto.
      * unfold on_message in Hp. rewrite (fr_on_append_entries wait_commit) in Hp by frs. left. eapply old_sub_refl; eauto.
      * unfold on_message in Hp. rewrite (fr_on_append_entries wait_commit) in Hp by frs. left. eapply old_sub_refl; eauto.
      * unfold on_message in Hp. rewrite (fr_on_append_entries wait_commit) in Hp by frs. left. eapply old_sub_refl; eauto.
      * rewrite (fr_msg_apply_cmd wait_commit) in Hp by frs. left. eapply old_sub_refl; eauto.
      * unfold on_message in Hp. cbn [nd start_S] in Hp.
        destruct (aget req (wait_reply x)) as [cbk|] eqn:Er; [|left; eapply old_sub_refl; eauto].
        destruct (negb okr); [rewrite nd_fire in Hp; left; eapply old_sub_refl; eauto|].
        destruct (_ <=? _); [rewrite nd_fire in Hp; left; eapply old_sub_refl; eauto|].
        cbn in Hp. apply ProofsCommitLog.In_aset in Hp. destruct Hp as [Hp|Hp]; [|left; eapply old_sub_refl; eauto].
        injection Hp as -> ->. rewrite local_subs_app in Ht. apply in_app_or in Ht. destruct Ht as [Ht|Ht].
        -- left. fold (subs_of a0 (wait_commit x)) in Ht. now apply subs_of_In.
        -- right. left. destruct cbk as [|id0|rn rid]; cbn in Ht; try contradiction.
           destruct Ht as [Ht|[]]. injection Ht as <- <-.
           apply (NI_wr _ _ _ _ _ _ (I (b, x) (ProofsCommitLog.aget_In _ _ _ Hx) Hlt) req).
           now apply ProofsCommitLog.aget_In.
      * rewrite (fr_msg_next_idx wait_commit) in Hp by frs. left. eapply old_sub_refl; eauto.
  - (* drop *)
    destruct (aget a (nodes g)) as [x|] eqn:Hx; [|discriminate]. injection ST as <- <-.
    apply (Stepped a x (idle_S (on_disconnected b x)) Hx); [rewrite nodes_chan_set, nodes_finish; reflexivity|reflexivity| |].
    + intros _ cm id Hq. left. cbn [nd idle_S] in Hq. now rewrite (fr_on_disconnected queue) in Hq by frs.
    + intros _ i subs t id Hp Ht. left. cbn [nd idle_S] in Hp. rewrite (fr_on_disconnected wait_commit) in Hp by frs.
      eapply old_sub_refl; eauto.
  - (* lose *)
    injection ST as <- <-. rewrite app_nil_r. intros p Hp Hlt. rewrite nodes_chan_set in Hp.
    rewrite <- (app_nil_r fw). now apply Old.
  - (* connect *)
    destruct (aget a (nodes g)) as [x|] eqn:Hx; [|discriminate]. injection ST as <- <-.
    apply (Stepped a x (idle_S (on_connected b x)) Hx); [|reflexivity| |].
    + rewrite nodes_finish. destruct (match aget b (nodes g) with Some y => negb (smem a (tconn y)) | None => true end); reflexivity.
    + intros _ cm id Hq. left. cbn [nd idle_S] in Hq. now rewrite (fr_on_connected queue) in Hq by frs.
    + intros _ i subs t id Hp Ht. left. cbn [nd idle_S] in Hp. rewrite (fr_on_connected wait_commit) in Hp by frs.
      eapply old_sub_refl; eauto.
  - (* submit *)
    destruct (aget n (nodes g)) as [x|] eqn:Hx; [|discriminate]. injection ST as <- <-.
    set (e := mk_env c 0 0 DEFAULT_BUDGET [] 0).
    apply (Stepped n x (api_submit e cm (cb_of cb) x) Hx); [apply nodes_finish|reflexivity| |].
    + intros _ cm' id Hq. unfold api_submit in Hq. apply submit_queue in Hq. destruct Hq as [Hq|Hq]; [now left|].
      right. injection Hq as -> Hcb. symmetry in Hcb. apply cb_of_local in Hcb. subst cb.
      left. apply in_or_app. right. now left.
    + intros _ i subs t id Hp Ht. left. unfold api_submit in Hp. rewrite (fr_submit wait_commit) in Hp by frs.
      eapply old_sub_refl; eauto.
  - (* admin: refused without dynamic membership *)
    destruct (aget n (nodes g)) as [x|] eqn:Hx; [|discriminate]. injection ST as <- <-.
    set (e := mk_env c 0 0 DEFAULT_BUDGET [] 0).
    apply (Stepped n x (api_admin e cm (cb_of cb) x) Hx); [apply nodes_finish|reflexivity| |].
    + intros _ cm' id Hq. left. unfold api_admin in Hq. cbn [cf e mk_env] in Hq. rewrite Hdyn in Hq. exact Hq.
    + intros _ i subs t id Hp Ht. left. unfold api_admin in Hp. cbn [cf e mk_env] in Hp. rewrite Hdyn in Hp.
      eapply old_sub_refl; eauto.
  - (* setver *)
    destruct (aget n (nodes g)) as [x|] eqn:Hx; [|discriminate]. injection ST as <- <-.
    set (e := mk_env c 0 0 DEFAULT_BUDGET [] 0).
    apply (Stepped n x (api_setver e cm (cb_of cb) x) Hx); [apply nodes_finish|reflexivity| |].
    + intros _ cm' id Hq. unfold api_setver in Hq. destruct (_ || _); [now left|].
      apply submit_queue in Hq. destruct Hq as [Hq|Hq]; [now left|].
      right. injection Hq as -> Hcb. symmetry in Hcb. apply cb_of_local in Hcb. subst cb.
      right. apply in_or_app. right. now left.
    + intros _ i subs t id Hp Ht. left. unfold api_setver in Hp.
      destruct (_ || _); [|rewrite (fr_submit wait_commit) in Hp by frs]; eapply old_sub_refl; eauto.
  - (* compact *)
    destruct (aget n (nodes g)) as [x|] eqn:Hx; [|discriminate]. injection ST as <- <-.
    apply (Stepped n x (idle_S (api_compact x)) Hx); [apply nodes_finish|reflexivity| |].
    + intros _ cm id Hq. now left.
    + intros _ i subs t id Hp Ht. left. eapply old_sub_refl; eauto.
  - (* kill *)
    injection ST as <- <-. rewrite app_nil_r. intros p Hp Hlt. cbn in Hp. apply ProofsCommitLog.In_adel in Hp.
    rewrite <- (app_nil_r fw). apply Old; [|exact Hlt].
    destruct (aget n (nodes g)) as [x|]; [destruct (disk_of c x)|]; exact Hp.
  - (* restart: a fresh node holds nothing *)
    injection ST as <- <-. intros p Hp Hlt. cbn in Hp. apply ProofsCommitLog.In_aset in Hp.
    destruct Hp as [->|Hp]; [|now apply Old]. cbn [fst snd].
    assert (E : forall y, (y = init_node (mk_env c now rnd DEFAULT_BUDGET [] 0) (if RO_BASE <=? n then None else Some n) oth sv \/
                           exists d, y = init_from_disk (mk_env c now rnd DEFAULT_BUDGET [] 0) (if RO_BASE <=? n then None else Some n) oth sv d) ->
                queue y = [] /\ wait_commit y = [] /\ wait_reply y = []).
    { intros y [->|[d ->]]; [cbn; auto|]. unfold init_from_disk. destruct (d_log d); cbn; auto. }
    match goal with |- ProofsCallbacksCore3.NodeInv _ _ ?y _ _ _ => destruct (E y) as (E1 & E2 & E3) end.
    { destruct (aget n (disks g)) as [d|]; [destruct (RO_BASE <=? n); [left; reflexivity|right; eauto]|left; reflexivity]. }
    constructor; intros; rewrite ?E1, ?E2, ?E3 in *; contradiction.
Qed.

End Ghost.

(* ------------------------------------------------------------------------------------------ *)
(* the invariant along a run                                                                  *)

Section Run.
Variables (c : conf) (V : list nid).
Hypothesis NDV : NoDup V.
Hypothesis VRO : forall v, In v V -> v < RO_BASE.
Hypothesis VNE : V <> [].
Hypothesis Hb1 : 1 < batch c.
Hypothesis Hdyn : dyn c = false.

Lemma run_subinv evs : forall g gh st s hist fw g' gh',
  GI c V g gh st s -> SubInv c g s hist fw ->
  valid_from V st evs = true -> run_ok5 c g evs = true ->
  grun c g gh evs = Some (g', gh') ->
  exists s', kstar V s s' /\ GI c V g' gh' (RefineFinal.sts_after st evs) s' /\
             SubInv c g' s' (hist ++ evs) (fw ++ fwd_run c g evs).
Proof.
  induction evs as [|ev evs IH]; intros g gh st s hist fw g' gh' G I Hv Hr Hg; cbn in *.
  - injection Hg as <- <-. exists s. split; [constructor|]. split; [exact G|]. now rewrite !app_nil_r.
  - apply andb_true_iff in Hv as [Hev Hv].
    apply andb_true_iff in Hr as [Htb Hr].
    destruct (gstep c g ev) as [[g1 r]|] eqn:Est; [|discriminate].
    destruct (step_sim c V NDV VRO VNE Hb1 Hdyn g gh st s ev g1 r G Hev Htb Est) as (s1 & K1 & G1).
    pose proof (step_subinv c V NDV VRO VNE Hb1 Hdyn g gh st s hist fw ev g1 r _ _ s1 G I
                  (tick_okb_ok c g ev Htb) Est G1 K1) as I1.
    destruct (IH g1 _ _ s1 _ _ g' gh' G1 I1 Hv Hr Hg) as (s2 & K2 & G2 & I2).
    exists s2. split; [eapply kstar_trans; eauto|]. split; [exact G2|].
    rewrite <- !app_assoc in I2. exact I2.
Qed.

End Run.

(* C02_success_is_committed_core5, the case of a command submitted at the node that appended it
   (the callback id was never parked in a pending-reply table): the entry that fired the callback
   carries the command submitted under that id *)
Theorem success_is_committed_core5_direct :
  forall (c : conf) (V : list nid) (evs1 : list event) (ev : event) (evs2 : list event)
         (g1 g2 g3 : gstate) (x : nid) (s : S) (id r : N),
  dyn c = false -> 1 < batch c ->
  valid V (evs1 ++ ev :: evs2) = true -> run_ok5 c ginit (evs1 ++ ev :: evs2) = true ->
  run_trace c ginit evs1 = Some g1 -> gstep c g1 ev = Some (g2, Some (x, s)) -> x < RO_BASE ->
  In (id, r, SUCCESS) (fired (outs s)) ->
  run_trace c g2 evs2 = Some g3 ->
  ~ In id (fwd_run c ginit evs1) ->
  exists en cm,
    submitted x cm id evs1 /\ ecmd en = cm /\
    In en (log (nd s)) /\ eidx en <= commit (nd s) /\
    forall b xb eb, aget b (nodes g3) = Some xb -> b < RO_BASE -> In eb (log xb) -> eidx eb = eidx en ->
                    eidx en <= commit xb -> eb = en.
Proof.
  intros c V evs1 ev evs2 g1 g2 g3 x s id r Hd Hb Hv Hok R1 ST Hx Hin R3 Hnf.
  destruct (success_is_committed_core5_partial c V evs1 ev evs2 g1 g2 g3 x s id r
              Hd Hb Hv Hok R1 ST Hx Hin R3)
    as (en & x0 & now & rnd & bud & ord & sl & -> & Hx0 & Hx2 & Hen & Hlo & Hic & Hsub & Hall).
  assert (F : core_frag5 c V (evs1 ++ ETick x now rnd bud ord sl :: evs2)) by (apply core_frag_intro; assumption).
  destruct (core_frag_facts c V _ F) as (ND & HV & HNE & Hb1 & Hdyn & Hvf & Hro).
  rewrite RefineFinal.valid_from_app in Hvf. apply andb_true_iff in Hvf as [Hv1 Hv2].
  rewrite (run_ok5_app c ginit evs1 _ g1 R1) in Hro. apply andb_true_iff in Hro as [Hok1 Hok2].
  destruct (proj1 (grun_run_trace c ginit gh0 evs1 g1) R1) as [gh1 Hg1].
  destruct (run_subinv c V ND HV HNE Hb1 Hdyn evs1 ginit gh0 [] (M.init (absV V)) [] [] g1 gh1
              (GI_init c V) (SubInv_init c V) Hv1 Hok1 Hg1) as (s1 & K1 & G1 & I1).
  cbn [app] in I1.
  (* the step itself *)
  cbn [valid_from] in Hv2. apply andb_true_iff in Hv2 as [Hev _].
  cbn [run_ok5] in Hok2. apply andb_true_iff in Hok2 as [Htb _].
  (* the subscription was there before the tick *)
  set (e := mk_env c now rnd bud ord sl) in *.
  pose proof (tickp_of_okb c g1 x now rnd bud ord sl x0 Htb Hx0) as Hfd. fold e in Hfd.
  destruct (quiet_tick_pre e x0 Hfd) as (_ & Qw & _).
  apply subs_of_In in Hsub. destruct Hsub as (subs0 & Hp0 & Ht0). apply Qw in Hp0.
  pose proof (I1 (x, x0) (ProofsCommitLog.aget_In _ _ _ Hx0) Hx) as NI. cbn [fst snd] in NI.
  destruct (NI_wc _ _ _ _ _ _ NI _ _ _ _ Hp0 Ht0) as [Hfw|(cm & Hsm & Hll)]; [contradiction|].
  destruct (step_sim c V ND HV HNE Hb1 Hdyn g1 gh1 _ s1 _ g2 _ G1 Hev Htb ST) as (s2 & K2 & G2).
  pose proof (entry_in_llog c V ND HV HNE Hb1 g2 _ _ s2 x (nd s) en G2 Hx2 Hx Hen) as L2.
  pose proof (llog_has_mono c s1 s2 _ _ _ (llog_mono_kstar V s1 s2 (GI_reach c V g1 gh1 _ s1 G1) K2) Hll) as L1.
  unfold ProofsCallbacksCore3.llog_has in L1. rewrite L2 in L1.
  assert (L3 : absE (pk c) en = absE (pk c) (mkEntry cm (eidx en) (eterm en))) by congruence.
  apply absE_inj in L3. clear L1. rename L3 into L1.
  exists en, cm. split; [exact Hsm|]. split; [rewrite L1; reflexivity|]. split; [exact Hen|]. split; [exact Hic|exact Hall].
Qed.

(* ------------------------------------------------------------------------------------------ *)
(* the hypotheses are met on the Tier C5 example run D (file_dump = true: a dump file is configured;
   log compaction and snapshot install): callback 12 (submitted at the leader, node 1, never forwarded)
   fires SUCCESS at node 1 in step 46, after the log of node 1 was cut.  The Tier C3 statements do not
   apply to this run (they ask for file_dump = false) *)
From PSO Require Import Raft.Refine5Example.

Definition ex5_state (k : nat) : gstate :=
  match run_trace t5_confD ginit (firstn k t5_traceD) with Some g => g | None => ginit end.
Definition ex5_event (k : nat) : event := nth k t5_traceD (EKill 0).

Example success_is_committed5_example :
  t5_traceD = firstn 46 t5_traceD ++ ex5_event 46 :: skipn 47 t5_traceD /\
  dyn t5_confD = false /\ file_dump t5_confD = true /\ 1 < batch t5_confD /\
  valid t5_V t5_traceD = true /\ run_ok5 t5_confD ginit t5_traceD = true /\
  run_trace t5_confD ginit (firstn 46 t5_traceD) = Some (ex5_state 46) /\
  ~ In 12 (fwd_run t5_confD ginit (firstn 46 t5_traceD)) /\
  In (ESubmit 1 (t5_cmd 8) 12) (firstn 46 t5_traceD) /\
  exists g2 s, gstep t5_confD (ex5_state 46) (ex5_event 46) = Some (g2, Some (1, s)) /\
               In (12, 3, SUCCESS) (fired (outs s)) /\
               map eidx (log (nd s)) = [2; 3; 4] /\ commit (nd s) = 4 /\
               exists g3, run_trace t5_confD g2 (skipn 47 t5_traceD) = Some g3.
Proof.
  split; [vm_compute; reflexivity|]. split; [reflexivity|]. split; [reflexivity|]. split; [vm_compute; reflexivity|].
  destruct t5D_in_fragment as (_ & _ & Hv & Hok). split; [exact Hv|]. split; [exact Hok|].
  split; [vm_compute; reflexivity|].
  split; [apply not_in_dec; vm_compute; reflexivity|].
  split; [vm_compute; repeat (first [left; reflexivity|right])|].
  do 2 eexists. split; [vm_compute; reflexivity|]. split; [vm_compute; auto|].
  split; [vm_compute; reflexivity|]. split; [vm_compute; reflexivity|]. eexists. vm_compute. reflexivity.
Qed.

(* the theorem instantiated on it *)
Example success_is_committed5_instance :
  exists g2 s g3 en,
    gstep t5_confD (ex5_state 46) (ex5_event 46) = Some (g2, Some (1, s)) /\
    run_trace t5_confD g2 (skipn 47 t5_traceD) = Some g3 /\
    submitted 1 (ecmd en) 12 (firstn 46 t5_traceD) /\ In en (log (nd s)) /\ eidx en <= commit (nd s) /\
    forall b xb eb, aget b (nodes g3) = Some xb -> b < RO_BASE -> In eb (log xb) -> eidx eb = eidx en ->
                    eidx en <= commit xb -> eb = en.
Proof.
  destruct success_is_committed5_example as (Es & Hd & _ & Hb & Hv & Hok & R1 & Hnf & _ & g2 & s & ST & Hin & _ & _ & g3 & R3).
  rewrite Es in Hv, Hok.
  destruct (success_is_committed_core5_direct t5_confD t5_V _ _ _ _ g2 g3 1 s 12 3 Hd Hb Hv Hok R1 ST
              ltac:(reflexivity) Hin R3 Hnf) as (en & cm & H1 & H2 & H3 & H4 & H5).
  exists g2, s, g3, en. rewrite H2.
  split; [exact ST|]. split; [exact R3|]. split; [exact H1|]. split; [exact H3|]. split; [exact H4|exact H5].
Qed.

(* run E (a snapshot refused for its code version: Tier C3's run_ok3 rejects this run): callback 11 of the
   "enable version 2" command fires SUCCESS at node 1 in step 21; the rest of the run contains the refused
   snapshot, after which the dump (index 3) sits in node 2's store ahead of node 2's commit index (1) *)
Definition ex5E_state (k : nat) : gstate :=
  match run_trace t5_conf ginit (firstn k t5_traceE) with Some g => g | None => ginit end.
Definition ex5E_event (k : nat) : event := nth k t5_traceE (EKill 0).

Example success_is_committed5_example_E :
  t5_traceE = firstn 21 t5_traceE ++ ex5E_event 21 :: skipn 22 t5_traceE /\
  dyn t5_conf = false /\ 1 < batch t5_conf /\
  valid t5_V t5_traceE = true /\ run_ok5 t5_conf ginit t5_traceE = true /\
  run_trace t5_conf ginit (firstn 21 t5_traceE) = Some (ex5E_state 21) /\
  ~ In 11 (fwd_run t5_conf ginit (firstn 21 t5_traceE)) /\
  In (ESetVer 1 t5_vcmd 11) (firstn 21 t5_traceE) /\
  exists g2 s, gstep t5_conf (ex5E_state 21) (ex5E_event 21) = Some (g2, Some (1, s)) /\
               In (11, 0, SUCCESS) (fired (outs s)) /\
               exists g3 n2 sn, run_trace t5_conf g2 (skipn 22 t5_traceE) = Some g3 /\
                 aget 2 (nodes g3) = Some n2 /\ stored (sr n2) = Some (Good sn) /\
                 eidx (s_e1 sn) = 3 /\ commit n2 = 1.
Proof.
  split; [vm_compute; reflexivity|]. split; [reflexivity|]. split; [vm_compute; reflexivity|].
  destruct t5E_in_fragment as (_ & _ & Hv & Hok). split; [exact Hv|]. split; [exact Hok|].
  split; [vm_compute; reflexivity|].
  split; [apply not_in_dec; vm_compute; reflexivity|].
  split; [vm_compute; repeat (first [left; reflexivity|right])|].
  do 2 eexists. split; [vm_compute; reflexivity|]. split; [vm_compute; auto|].
  do 3 eexists. split; [vm_compute; reflexivity|]. split; [vm_compute; reflexivity|].
  split; [vm_compute; reflexivity|]. split; vm_compute; reflexivity.
Qed.
