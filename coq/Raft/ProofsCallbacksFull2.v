(* C02 x Tier C2, the id -> command link for commands submitted at the leader: a ghost invariant over
   the run ties every local subscription (term t, callback id) recorded at index i to the command
   submitted under id, through the abstract leader log of term t (append-only, and every entry of
   term t in any voter's log sits in it at its index). *)
From Coq Require Import ZArith NArith List Bool Lia ZifyBool Arith PeanoNat.
From RecordUpdate Require Import RecordSet.
From PSO Require Import Raft.Types Raft.Node Raft.Net Raft.Obs Raft.ProofsCommitBase.
From PSO Require Import Raft.ProofsApplyBase Raft.ProofsApply Raft.ProofsApplyLog Raft.ProofsCallbacks Raft.ProofsCallbacks2
  Raft.ProofsApplyWf.
From PSO Require Import Raft.ProofsElectionGhost.
From PSO Require Import Raft.RefineAbs Raft.Refine2Abs Raft.Refine2Main Raft.Refine2Final.
From PSO Require Raft.ProofsCommitLog Raft.ProofsCallbacksCore Raft.ProofsCallbacksCore2 Raft.Refine2Sim.
Import ListNotations.
Import RecordSetNotations.
Open Scope N_scope.

Ltac frs := intros; reflexivity.

(* ------------------------------------------------------------------------------------------ *)
(* the command loop of one tick: what it does to the queue, the subscriptions and the log      *)

Lemma local_subs_app a b : local_subs (a ++ b) = local_subs a ++ local_subs b.
Proof. unfold local_subs. apply flat_map_app. Qed.

Lemma subs_of_In i wc t id : In (t, id) (local_subs (subs_of i wc)) -> exists subs0, In (i, subs0) wc /\ In (t, id) (local_subs subs0).
Proof.
  unfold subs_of. destruct (aget i wc) as [l|] eqn:E; [|intros []].
  intros H. exists l. split; [now apply ProofsCommitLog.aget_In|exact H].
Qed.

Definition old_sub (wc : list (N * list (N * cbref))) (i t id : N) : Prop :=
  exists subs0, In (i, subs0) wc /\ In (t, id) (local_subs subs0).

Lemma check_loop_subs f e st : forall s,
  let s' := check_loop f e st s in
  (forall q, In q (queue (nd s')) -> In q (queue (nd s))) /\
  (exists added, log (nd s') = log (nd s) ++ added) /\
  (forall i subs t id, In (i, subs) (wait_commit (nd s')) -> In (t, id) (local_subs subs) ->
     old_sub (wait_commit (nd s)) i t id \/
     exists cm, In (cm, CbLocal id) (queue (nd s)) /\ In (mkEntry cm i t) (log (nd s')) /\ last_idx (log (nd s)) < i).
Proof.
  induction f as [|f IH]; intros s; cbn [check_loop]; cbv zeta.
  { split; [auto|]. split; [exists []; now rewrite app_nil_r|]. intros i subs t id H1 H2. left. exists subs. auto. }
  assert (Hid : (forall q, In q (queue (nd s)) -> In q (queue (nd s))) /\
                (exists added, log (nd s) = log (nd s) ++ added) /\
                (forall i subs t id, In (i, subs) (wait_commit (nd s)) -> In (t, id) (local_subs subs) ->
                   old_sub (wait_commit (nd s)) i t id \/
                   exists cm, In (cm, CbLocal id) (queue (nd s)) /\ In (mkEntry cm i t) (log (nd s)) /\ last_idx (log (nd s)) < i)).
  { split; [auto|]. split; [exists []; now rewrite app_nil_r|]. intros i subs t id H1 H2. left. exists subs. auto. }
  destruct (_ <? _)%Z; [|exact Hid].
  assert (K : (forall q, In q (queue (nd (match queue (nd s) with
            | [] => s
            | (c0, cbk) :: rest =>
              let s := upd (fun n => n <| queue := rest |>) s in
              let s := check_one e c0 cbk s in
              if ok s then check_loop f e st s else s end))) -> In q (queue (nd s))) /\
     (exists added, log (nd (match queue (nd s) with
            | [] => s
            | (c0, cbk) :: rest =>
              let s := upd (fun n => n <| queue := rest |>) s in
              let s := check_one e c0 cbk s in
              if ok s then check_loop f e st s else s end)) = log (nd s) ++ added) /\
     (forall i subs t id, In (i, subs) (wait_commit (nd (match queue (nd s) with
            | [] => s
            | (c0, cbk) :: rest =>
              let s := upd (fun n => n <| queue := rest |>) s in
              let s := check_one e c0 cbk s in
              if ok s then check_loop f e st s else s end))) -> In (t, id) (local_subs subs) ->
        old_sub (wait_commit (nd s)) i t id \/
        exists cm, In (cm, CbLocal id) (queue (nd s)) /\
                   In (mkEntry cm i t) (log (nd (match queue (nd s) with
            | [] => s
            | (c0, cbk) :: rest =>
              let s := upd (fun n => n <| queue := rest |>) s in
              let s := check_one e c0 cbk s in
              if ok s then check_loop f e st s else s end))) /\ last_idx (log (nd s)) < i)).
  { destruct (queue (nd s)) as [|[c0 cbk] rest] eqn:Eq.
    { split; [intros q Hq; rewrite Eq in Hq; exact Hq|]. split; [exists []; now rewrite app_nil_r|]. intros i subs t id H1 H2. left. exists subs. auto. }
    cbv zeta. rewrite <- Eq.
    set (s1 := upd (fun n => n <| queue := rest |>) s).
    destruct (ProofsCallbacks2.check_one_spec e c0 cbk s1) as (Q2 & _ & F & R & _ & _ & H). cbn zeta in H.
    set (s2 := check_one e c0 cbk s1) in *.
    change (queue (nd s1)) with rest in Q2. change (log (nd s1)) with (log (nd s)) in H.
    change (wait_commit (nd s1)) with (wait_commit (nd s)) in H. change (term (nd s1)) with (term (nd s)) in H.
    (* one dequeued command *)
    assert (One : (exists added, log (nd s2) = log (nd s) ++ added) /\
                  last_idx (log (nd s)) <= last_idx (log (nd s2)) /\
                  (forall i subs t id, In (i, subs) (wait_commit (nd s2)) -> In (t, id) (local_subs subs) ->
                     old_sub (wait_commit (nd s)) i t id \/
                     (cbk = CbLocal id /\ In (mkEntry c0 i t) (log (nd s2)) /\ last_idx (log (nd s)) < i))).
    { destruct H as [(_ & Hl & _ & _ & Hc)|(Hl & Hw & _)].
      - split; [eexists; exact Hl|]. split; [rewrite Hl, ProofsCommitLog.last_idx_app; cbn; lia|].
        intros i subs t id Hp Ht. destruct cbk as [|id0|rn rid].
        + destruct Hc as [_ Hc]. rewrite Hc in Hp. left. exists subs. auto.
        + destruct Hc as [_ Hc]. rewrite Hc in Hp. apply ProofsCommitLog.In_aset in Hp. destruct Hp as [Hp|Hp].
          * injection Hp as -> ->. rewrite local_subs_app in Ht. apply in_app_or in Ht. destruct Ht as [Ht|Ht].
            -- left. now apply subs_of_In.
            -- cbn in Ht. destruct Ht as [Ht|[]]. injection Ht as <- <-. right.
               split; [reflexivity|]. split; [rewrite Hl; apply in_or_app; right; now left|lia].
          * left. exists subs. auto.
        + destruct Hc as [_ Hc]. rewrite Hc in Hp. left. exists subs. auto.
      - split; [exists []; now rewrite Hl, app_nil_r|]. split; [rewrite Hl; lia|].
        intros i subs t id Hp Ht. rewrite Hw in Hp. left. exists subs. auto. }
    destruct One as ([a1 L1] & M1 & W1).
    assert (Hone : (forall q, In q (queue (nd s2)) -> In q (queue (nd s))) /\
                   (exists added, log (nd s2) = log (nd s) ++ added) /\
                   (forall i subs t id, In (i, subs) (wait_commit (nd s2)) -> In (t, id) (local_subs subs) ->
                      old_sub (wait_commit (nd s)) i t id \/
                      exists cm, In (cm, CbLocal id) (queue (nd s)) /\ In (mkEntry cm i t) (log (nd s2)) /\ last_idx (log (nd s)) < i)).
    { split; [intros q Hq; rewrite Q2 in Hq; rewrite Eq; now right|]. split; [eauto|].
      intros i subs t id Hp Ht. destruct (W1 i subs t id Hp Ht) as [Ho|(-> & He & Hi)]; [now left|].
      right. exists c0. split; [rewrite Eq; now left|auto]. }
    destruct (ok s2); [|exact Hone].
    destruct (IH s2) as (I1 & [a2 I2] & I3). cbv zeta in *.
    split; [intros q Hq; apply I1 in Hq; rewrite Q2 in Hq; rewrite Eq; now right|].
    split; [exists (a1 ++ a2); now rewrite I2, L1, app_assoc|].
    intros i subs t id Hp Ht. destruct (I3 i subs t id Hp Ht) as [(subs0 & Hp0 & Ht0)|(cm & Hq & He & Hi)].
    - destruct (W1 i subs0 t id Hp0 Ht0) as [Ho|(-> & He & Hi)]; [now left|].
      right. exists c0. split; [rewrite Eq; now left|]. split; [rewrite I2; apply in_or_app; now left|exact Hi].
    - right. exists cm. split; [rewrite Q2 in Hq; rewrite Eq; now right|]. split; [exact He|lia]. }
  destruct (leader (nd s)); [exact K|]. destruct (wait_leader (cf e)); [exact Hid|exact K].
Qed.

(* the phases of a tick before the command loop: nothing is added to the queue or the subscriptions *)
Definition quiet_rel (a b : node) : Prop :=
  (forall q, In q (queue b) -> In q (queue a)) /\
  (forall p, In p (wait_commit b) -> In p (wait_commit a)) /\
  ProofsCommitLog.nkeeps a b.

Lemma quiet_refl a : quiet_rel a a.
Proof. split; [auto|]. split; [auto|apply ProofsCommitLog.nkeeps_refl]. Qed.
Lemma quiet_trans a b d : quiet_rel a b -> quiet_rel b d -> quiet_rel a d.
Proof.
  intros (A1 & A2 & A3) (B1 & B2 & B3). split; [auto|]. split; [auto|eapply ProofsCommitLog.nkeeps_trans; eauto].
Qed.
Lemma quiet_same a b : queue b = queue a -> wait_commit b = wait_commit a -> ProofsCommitLog.nkeeps a b -> quiet_rel a b.
Proof. intros H1 H2 H3. split; [now rewrite H1|]. split; [now rewrite H2|exact H3]. Qed.

Lemma wc_apply_one en s : wait_commit (nd (fst (apply_one en s))) = adel (eidx en) (wait_commit (nd s)).
Proof.
  unfold apply_one.
  match goal with |- context [do_apply ?c0 ?s1] =>
    pose proof (fr_do_apply wait_commit) as G; specialize (G ltac:(frs) ltac:(frs) ltac:(frs) ltac:(frs)
      ltac:(frs) ltac:(frs) ltac:(frs) c0 s1); destruct (do_apply c0 s1) as [s2 ar] end.
  cbn [fst] in G. rewrite nd_upd in G. cbn [wait_commit set] in G.
  destruct ar; cbn [fst]; try exact G; rewrite nd_upd; cbn [wait_commit set];
    rewrite ProofsCommit.nd_fold_fire; exact G.
Qed.

Lemma wc_apply_list es s : forall p, In p (wait_commit (nd (apply_list es s))) -> In p (wait_commit (nd s)).
Proof.
  revert s. induction es as [|en es IH]; intros s p Hp; cbn [apply_list] in Hp; [exact Hp|].
  pose proof (wc_apply_one en s) as G. destruct (apply_one en s) as [s1 go]. cbn [fst] in G.
  assert (Hs1 : forall p, In p (wait_commit (nd s1)) -> In p (wait_commit (nd s))).
  { intros p0 H0. rewrite G in H0. eapply ProofsCommitLog.In_adel; eauto. }
  destruct go; [apply Hs1, (IH s1), Hp|apply Hs1, Hp].
Qed.

Lemma quiet_apply_entries e s : quiet_rel (nd s) (nd (fst (apply_entries e s))).
Proof.
  split; [rewrite (fr_apply_entries queue) by frs; auto|]. split; [|apply ProofsCommitLog.nkeeps_apply_entries].
  unfold apply_entries. destruct (_ <? _); cbn [fst]; [apply wc_apply_list|auto].
Qed.

Lemma quiet_tick_pre e x0 : file_dump (cf e) = false -> quiet_rel x0 (nd (tick_pre e (start_S e x0))).
Proof.
  intros Hf. unfold tick_pre. change x0 with (nd (start_S e x0)) at 1.
  apply (andthen_rel quiet_rel); [apply quiet_trans| |intros].
  { unfold tick_load. rewrite Hf, andb_false_r. apply quiet_same; try reflexivity.
    apply ProofsCommitLog.nkeeps_los. reflexivity. }
  apply (andthen_rel quiet_rel); [apply quiet_trans| |intros].
  { apply quiet_same; [apply (fr_tick_timer queue); frs|apply (fr_tick_timer wait_commit); frs|].
    apply ProofsCommitLog.nkeeps_los. apply (fr_tick_timer ProofsCommitLog.los); reflexivity. }
  apply (andthen_rel quiet_rel); [apply quiet_trans| |intros].
  { apply quiet_same; [apply (fr_tick_election queue); frs|apply (fr_tick_election wait_commit); frs|].
    apply ProofsCommitLog.nkeeps_tick_election. }
  apply quiet_same; [apply (fr_tick_leader queue); frs|apply (fr_tick_leader wait_commit); frs|].
  apply ProofsCommitLog.nkeeps_los. apply (fr_tick_leader ProofsCommitLog.los); reflexivity.
Qed.

Lemma last_idx_of_nkeeps a b : ProofsCommitLog.nkeeps a b -> log a <> [] -> last_idx (log a) <= last_idx (log b).
Proof. intros (_ & _ & _ & H) Hne. exact (H Hne). Qed.

(* what a whole tick does to the queue and the subscriptions *)
Definition tick_res (x0 b : node) : Prop :=
  (forall q, In q (queue b) -> In q (queue x0)) /\
  (forall i subs t id, In (i, subs) (wait_commit b) -> In (t, id) (local_subs subs) ->
     old_sub (wait_commit x0) i t id \/
     exists cm, In (cm, CbLocal id) (queue x0) /\ In (mkEntry cm i t) (log b) /\ last_idx (log x0) < i).

Lemma tick_res_quiet x0 b : quiet_rel x0 b -> tick_res x0 b.
Proof.
  intros (A1 & A2 & _). split; [exact A1|]. intros i subs t id Hp Ht. left. exists subs. auto.
Qed.

Lemma tick_body_res e x0 :
  file_dump (cf e) = false -> log x0 <> [] -> tick_res x0 (nd (tick_body e (start_S e x0))).
Proof.
  intros Hf Hne. unfold tick_body. rewrite andthen_apply.
  pose proof (quiet_tick_pre e x0 Hf) as Q0. set (s0 := tick_pre e (start_S e x0)) in *.
  destruct (ok s0); [|now apply tick_res_quiet].
  pose proof (quiet_apply_entries e s0) as Q1. destruct (apply_entries e s0) as [s1 need]. cbn [fst] in Q1.
  pose proof (quiet_trans _ _ _ Q0 Q1) as Q01.
  destruct (ok s1); [|now apply tick_res_quiet].
  unfold tick_mid. rewrite andthen_apply.
  assert (Q2 : quiet_rel (nd s1) (nd (tick_send e need s1))).
  { apply quiet_same; [apply (fr_tick_send queue); frs|apply (fr_tick_send wait_commit); frs|apply ProofsCommitLog.nkeeps_tick_send]. }
  pose proof (quiet_trans _ _ _ Q01 Q2) as Q02. set (s2 := tick_send e need s1) in *.
  destruct (ok s2); [|now apply tick_res_quiet]. rewrite andthen_apply.
  assert (Q3 : quiet_rel (nd s2) (nd (tick_ready s2))).
  { apply quiet_same; [apply (fr_tick_ready queue); frs|apply (fr_tick_ready wait_commit); frs|].
    apply ProofsCommitLog.nkeeps_los. apply (fr_tick_ready ProofsCommitLog.los); reflexivity. }
  pose proof (quiet_trans _ _ _ Q02 Q3) as (A1 & A2 & A3). set (s3 := tick_ready s2) in *.
  destruct (ok s3); [|split; [exact A1|intros i subs t id Hp Ht; left; exists subs; auto]].
  unfold check_commands. destruct (check_loop_subs (Datatypes.S (length (queue (nd s3)))) e (tnow s3) s3) as (C1 & _ & C3).
  cbv zeta in *. split; [auto|].
  intros i subs t id Hp Ht. destruct (C3 i subs t id Hp Ht) as [(subs0 & Hp0 & Ht0)|(cm & Hq & He & Hi)].
  - left. exists subs0. auto.
  - right. exists cm. split; [auto|]. split; [exact He|]. pose proof (last_idx_of_nkeeps _ _ A3 Hne). lia.
Qed.

Lemma on_tick_res e x0 :
  file_dump (cf e) = false -> ProofsApplyLog.log_wf (log x0) -> applied x0 <= last_idx (log x0) ->
  (pid (sr x0) = 1 -> cur_id (sr x0) < applied x0) ->
  tick_res x0 (nd (on_tick e x0)).
Proof.
  intros Hf W0 Hal Hcur. rewrite on_tick_body, andthen_apply.
  assert (Hne : log x0 <> []) by apply W0.
  pose proof (tick_body_res e x0 Hf Hne) as [T1 T2].
  pose proof (ProofsCallbacksCore2.grows2_tick_pre e x0 Hf) as (P0 & Cu0 & _).
  pose proof (ProofsCallbacksCore2.log_wf_tick_pre e x0 Hf W0) as W1.
  destruct (ProofsCallbacksCore2.tick_body_after_pre e x0 W1) as ((Pb & Cub & _) & _ & Wb).
  set (sb := tick_body e (start_S e x0)) in *.
  destruct (ok sb); [|split; assumption].
  split.
  - intros q Hq. rewrite (fr_try_compact queue) in Hq by frs. auto.
  - intros i subs t id Hp Ht. rewrite (fr_try_compact wait_commit) in Hp by frs.
    destruct (T2 i subs t id Hp Ht) as [Ho|(cm & Hq & He & Hi)]; [now left|].
    right. exists cm. split; [exact Hq|]. split; [|exact Hi].
    rewrite ProofsCallbacksCore2.try_compact_log. destruct (pid (sr (nd sb)) =? 1) eqn:Ep; [|exact He].
    apply N.eqb_eq in Ep. apply (ProofsCallbacksCore2.In_delete_to_kept _ _ _ Wb He). cbn [eidx].
    assert (Hp0 : pid (sr x0) = 1) by congruence. specialize (Hcur Hp0). rewrite Cub, Cu0. lia.
Qed.

(* ------------------------------------------------------------------------------------------ *)
(* the ghost invariant                                                                        *)

Definition submitted (x : nid) (cm : cmd) (id : N) (hist : list event) : Prop :=
  In (ESubmit x cm id) hist \/ In (ESetVer x cm id) hist.

Definition wr_ids (wr : list (N * cbref)) : list N :=
  flat_map (fun p => match snd p with CbLocal id => [id] | _ => [] end) wr.

Lemma wr_ids_In req id wr : In (req, CbLocal id) wr -> In id (wr_ids wr).
Proof. intros H. unfold wr_ids. apply in_flat_map. exists (req, CbLocal id). split; [exact H|now left]. Qed.

(* the callback ids that were ever parked in a pending-reply table (= forwarded to a leader) *)
Fixpoint fwd_run (c : conf) (g : gstate) (evs : list event) : list N :=
  match evs with
  | [] => []
  | ev :: r =>
    match gstep c g ev with
    | Some (g', o) =>
      (match o with Some (_, s) => wr_ids (wait_reply (nd s)) | None => [] end) ++ fwd_run c g' r
    | None => []
    end
  end.

Section Ghost.
Variables (c : conf) (V : list nid).
Hypothesis NDV : NoDup V.
Hypothesis VRO : forall v, In v V -> v < RO_BASE.
Hypothesis VNE : V <> [].
Hypothesis Hb1 : 1 < batch c.
Hypothesis Hdyn : dyn c = false.
Hypothesis Hfd : file_dump c = false.

Notation GI := (GI c V).

Definition llog_has (s : M.state) (i t : N) (cm : cmd) : Prop :=
  nth_error (M.llog s (n2 t)) (n2 i - 1) = Some (absE (pk c) (mkEntry cm i t)).

Record NodeInv (x : nid) (xn : node) (s : M.state) (hist : list event) (fw : list N) : Prop := {
  NI_q : forall cm id, In (cm, CbLocal id) (queue xn) -> submitted x cm id hist;
  NI_wc : forall i subs t id, In (i, subs) (wait_commit xn) -> In (t, id) (local_subs subs) ->
          In id fw \/ exists cm, submitted x cm id hist /\ llog_has s i t cm;
  NI_wr : forall req id, In (req, CbLocal id) (wait_reply xn) -> In id fw
}.

Definition SubInv (g : gstate) (s : M.state) (hist : list event) (fw : list N) : Prop :=
  forall p, In p (nodes g) -> fst p < RO_BASE -> NodeInv (fst p) (snd p) s hist fw.

Definition llog_mono (s s' : M.state) : Prop := forall T, exists r, M.llog s' T = M.llog s T ++ r.

Lemma llog_has_mono s s' i t cm : llog_mono s s' -> llog_has s i t cm -> llog_has s' i t cm.
Proof.
  intros M H. unfold llog_has in *. destruct (M (n2 t)) as [r ->].
  rewrite nth_error_app1; [exact H|]. apply nth_error_Some. congruence.
Qed.

Lemma llog_mono_kstar s s' : KS.kreachable (absV V) s -> kstar V s s' -> llog_mono s s'.
Proof.
  intros HR K. induction K as [|sa sb K IH Ks].
  - intros T. exists []. now rewrite app_nil_r.
  - intros T. destruct (IH T) as [r1 E1].
    assert (HRa : KS.kreachable (absV V) sa) by (eapply kstar_kreachable; eauto).
    destruct (S3.kstep_llog (absV V) sa sb T (S1.inv1_kreachable (absV V) sa HRa)
                (S2.inv2_kreachable (absV V) sa HRa) (S3.inv3_kreachable (absV V) sa HRa) Ks) as (r2 & E2 & _).
    exists (r1 ++ r2). now rewrite E2, E1, app_assoc.
Qed.

Lemma submitted_mono x cm id h h' : submitted x cm id h -> submitted x cm id (h ++ h').
Proof. intros [H|H]; [left|right]; apply in_or_app; now left. Qed.

Lemma NodeInv_mono x xn s s' h h' fw fw' :
  llog_mono s s' -> NodeInv x xn s h fw -> NodeInv x xn s' (h ++ h') (fw ++ fw').
Proof.
  intros M [A B C]. constructor.
  - intros cm id H. apply submitted_mono. eauto.
  - intros i subs t id Hp Ht. destruct (B i subs t id Hp Ht) as [H|(cm & H1 & H2)].
    + left. apply in_or_app. now left.
    + right. exists cm. split; [now apply submitted_mono|eapply llog_has_mono; eauto].
  - intros req id H. apply in_or_app. left. eauto.
Qed.

(* an entry held by a voter sits in the abstract leader log of its term, at its index *)
Lemma entry_in_llog g gh st s x xn en :
  GI g gh st s -> aget x (nodes g) = Some xn -> x < RO_BASE -> In en (log xn) ->
  nth_error (M.llog s (n2 (eterm en))) (n2 (eidx en) - 1) = Some (absE (pk c) en).
Proof.
  intros G Hx Hlt Hin.
  destruct (GI_full c V NDV VRO VNE Hb1 g gh st s G x xn Hx Hlt) as (full & E & W & X).
  destruct (In_full_nth _ _ _ W X Hin) as [Nn _].
  pose proof (GI_reach c V g gh st s G) as HR.
  pose proof (S3.inv3_kreachable (absV V) s HR) as H3.
  pose proof (S3.I3_in _ H3 (n2 x)) as I.
  specialize (I (n2 (eidx en) - 1)%nat (absE (pk c) en)).
  rewrite E, absL_nth, Nn in I. exact (I eq_refl).
Qed.


(* facts about a running voter needed by the tick analysis *)
Lemma node_facts g gh st s x xn :
  GI g gh st s -> aget x (nodes g) = Some xn -> x < RO_BASE ->
  ProofsApplyLog.log_wf (log xn) /\ applied xn <= last_idx (log xn) /\
  (pid (sr xn) = 1 -> cur_id (sr xn) < applied xn).
Proof.
  intros G Hx Hlt.
  destruct (GI_full c V NDV VRO VNE Hb1 g gh st s G x xn Hx Hlt) as (full & E & W & X).
  pose proof (ProofsCallbacksCore2.suffix_log_wf _ full W X) as Wl.
  pose proof (R_hyg c V g gh st s (GI_R c V g gh st s G) x xn Hx Hlt) as H.
  split; [exact Wl|]. split; [|apply (H_cur _ _ H)].
  pose proof (H_ac _ _ H) as Hac. pose proof (H_fi _ _ H) as Hfi.
  destruct (st_committed_held c V NDV VRO VNE Hb1 Hdyn Hfd g gh st s G x xn (commit xn) Hx Hlt) as (en & Hen & Hi); [lia|lia|].
  destruct Wl as [Hne Hc]. pose proof (consec_in _ _ _ Hc Hen) as Hr.
  pose proof (log_wf_last _ (conj Hne Hc)) as Hl. lia.
Qed.

Lemma NodeInv_sub x xn xn' s h fw :
  NodeInv x xn s h fw ->
  (forall q, In q (queue xn') -> In q (queue xn)) ->
  (forall p, In p (wait_commit xn') -> In p (wait_commit xn)) ->
  (forall r, In r (wait_reply xn') -> In r (wait_reply xn)) ->
  NodeInv x xn' s h fw.
Proof.
  intros [A B C] Hq Hw Hr. constructor.
  - intros cm id H. eauto.
  - intros i subs t id Hp Ht. eauto.
  - intros req id H. eauto.
Qed.

(* the stepped node: its pending-reply ids are in the new forwarded set by construction *)
Lemma stepped_inv x xn xn' s s' h ev fw :
  llog_mono s s' -> NodeInv x xn s h fw ->
  (forall cm id, In (cm, CbLocal id) (queue xn') ->
     In (cm, CbLocal id) (queue xn) \/ submitted x cm id (h ++ [ev])) ->
  (forall i subs t id, In (i, subs) (wait_commit xn') -> In (t, id) (local_subs subs) ->
     old_sub (wait_commit xn) i t id \/ In id fw \/
     exists cm, submitted x cm id (h ++ [ev]) /\ llog_has s' i t cm) ->
  NodeInv x xn' s' (h ++ [ev]) (fw ++ wr_ids (wait_reply xn')).
Proof.
  intros M [A B C] Hq Hw. constructor.
  - intros cm id H. destruct (Hq cm id H) as [H1|H1]; [apply submitted_mono; eauto|exact H1].
  - intros i subs t id Hp Ht. destruct (Hw i subs t id Hp Ht) as [(subs0 & Hp0 & Ht0)|[Hf|(cm & H1 & H2)]].
    + destruct (B i subs0 t id Hp0 Ht0) as [Hf|(cm & H1 & H2)].
      * left. apply in_or_app. now left.
      * right. exists cm. split; [now apply submitted_mono|eapply llog_has_mono; eauto].
    + left. apply in_or_app. now left.
    + right. exists cm. auto.
  - intros req id H. apply in_or_app. right. eapply wr_ids_In; eauto.
Qed.

Lemma cb_of_local cb id : cb_of cb = CbLocal id -> cb = id.
Proof. unfold cb_of. destruct (cb =? 0); [discriminate|]. intros H. now inversion H. Qed.

Lemma submit_queue e cm cbk s q :
  In q (queue (nd (submit e cm cbk s))) -> In q (queue (nd s)) \/ q = (cm, cbk).
Proof.
  unfold submit. destruct (_ <? _); [rewrite nd_call_err; auto|].
  rewrite nd_upd. cbn [queue set]. intros H. apply in_app_or in H. destruct H as [H|[H|[]]]; auto.
Qed.

Lemma old_sub_refl wc i subs t id : In (i, subs) wc -> In (t, id) (local_subs subs) -> old_sub wc i t id.
Proof. intros H1 H2. exists subs. auto. Qed.

(* one global step *)
Lemma step_subinv g gh st s hist fw ev g1 r gh1 st1 s1 :
  GI g gh st s -> SubInv g s hist fw ->
  gstep c g ev = Some (g1, r) -> GI g1 gh1 st1 s1 -> kstar V s s1 ->
  SubInv g1 s1 (hist ++ [ev])
         (fw ++ match r with Some (_, S0) => wr_ids (wait_reply (nd S0)) | None => [] end).
Proof.
  intros G I ST G1 K.
  pose proof (llog_mono_kstar s s1 (GI_reach c V g gh st s G) K) as M.
  assert (Old : forall p, In p (nodes g) -> fst p < RO_BASE ->
                forall fw', NodeInv (fst p) (snd p) s1 (hist ++ [ev]) (fw ++ fw')).
  { intros p Hp Hlt fw'. apply (NodeInv_mono (fst p) (snd p) s s1 hist [ev] fw fw' M). now apply I. }
  (* the generic shape: the stepped node n was x, is now xn' *)
  assert (Stepped : forall n x (S0 : S),
            aget n (nodes g) = Some x ->
            nodes g1 = aset n (nd S0) (nodes g) -> r = Some (n, S0) ->
            (n < RO_BASE -> forall cm id, In (cm, CbLocal id) (queue (nd S0)) ->
               In (cm, CbLocal id) (queue x) \/ submitted n cm id (hist ++ [ev])) ->
            (n < RO_BASE -> forall i subs t id, In (i, subs) (wait_commit (nd S0)) -> In (t, id) (local_subs subs) ->
               old_sub (wait_commit x) i t id \/ In id fw \/
               exists cm, submitted n cm id (hist ++ [ev]) /\ llog_has s1 i t cm) ->
            SubInv g1 s1 (hist ++ [ev])
              (fw ++ match r with Some (_, S1) => wr_ids (wait_reply (nd S1)) | None => [] end)).
  { intros n x S0 Hx Hn -> Hq Hw p Hp Hlt. rewrite Hn in Hp. apply ProofsCommitLog.In_aset in Hp.
    destruct Hp as [->|Hp]; [|now apply Old]. cbn [fst snd] in *.
    apply (stepped_inv n x (nd S0) s s1 hist ev fw M); [|now apply Hq|now apply Hw].
    apply (I (n, x)); [now apply ProofsCommitLog.aget_In|exact Hlt]. }
  destruct ev as [n now rnd bud ord sl|a b now rnd ord|a b|a b k|a b|n cm cb|n cm cb|n cm cb|n|n|n oth now rnd sv];
    unfold gstep in ST; cbv zeta in ST.
  - (* tick *)
    destruct (aget n (nodes g)) as [x|] eqn:Hx; [|discriminate]. injection ST as <- <-.
    set (e := mk_env c now rnd bud ord sl).
    apply (Stepped n x (on_tick e x) Hx); [apply nodes_finish|reflexivity| |].
    + intros Hlt cm id Hq. left.
      destruct (node_facts g gh st s n x G Hx Hlt) as (W0 & Hal & Hcur).
      destruct (on_tick_res e x Hfd W0 Hal Hcur) as [T1 _]. auto.
    + intros Hlt i subs t id Hp Ht.
      destruct (node_facts g gh st s n x G Hx Hlt) as (W0 & Hal & Hcur).
      destruct (on_tick_res e x Hfd W0 Hal Hcur) as [_ T2].
      destruct (T2 i subs t id Hp Ht) as [Ho|(cm & Hq & He & _)]; [now left|].
      right. right. exists cm. split.
      * apply submitted_mono. apply (NI_q _ _ _ _ _ (I (n, x) (ProofsCommitLog.aget_In _ _ _ Hx) Hlt)). exact Hq.
      * assert (Hx1 : aget n (nodes (finish n (on_tick e x) g)) = Some (nd (on_tick e x))).
        { rewrite nodes_finish, aget_aset, N.eqb_refl. reflexivity. }
        pose proof (entry_in_llog _ gh1 st1 s1 n _ (mkEntry cm i t) G1 Hx1 Hlt He) as L. exact L.
  - (* deliver *)
    destruct (aget b (nodes g)) as [x|] eqn:Hx; [|discriminate].
    destruct (chan_get a b g) as [|m rest] eqn:Ec; [discriminate|]. injection ST as <- <-.
    set (e := mk_env c now rnd DEFAULT_BUDGET ord 0).
    apply (Stepped b x (on_message e a m x) Hx); [rewrite nodes_finish, nodes_chan_set; reflexivity|reflexivity| |].
    + intros Hlt cm id Hq. left.
      destruct m as [t lli llt|t|t cc prev es|t cc prev lab off len en|t cc p|c0 req|req okr a0 b0|t nx r0 su].
      * now rewrite (fr_msg_request_vote queue) in Hq by frs.
      * now rewrite (fr_msg_response_vote queue) in Hq by frs.
      * unfold on_message in Hq. now rewrite (fr_on_append_entries queue) in Hq by frs.
      * unfold on_message in Hq. now rewrite (fr_on_append_entries queue) in Hq by frs.
      * unfold on_message in Hq. now rewrite (fr_on_append_entries queue) in Hq by frs.
      * unfold on_message in Hq. apply submit_queue in Hq. destruct Hq as [Hq|Hq]; [exact Hq|].
        destruct req; inversion Hq.
      * now rewrite (fr_msg_apply_resp queue) in Hq by frs.
      * now rewrite (fr_msg_next_idx queue) in Hq by frs.
    + intros Hlt i subs t id Hp Ht.
      destruct m as [t0 lli llt|t0|t0 cc prev es|t0 cc prev lab off len en|t0 cc p|c0 req|req okr a0 b0|t0 nx r0 su].
      * rewrite (fr_msg_request_vote wait_commit) in Hp by frs. left. eapply old_sub_refl; eauto.
      * rewrite (fr_msg_response_vote wait_commit) in Hp by frs. left. eapply old_sub_refl; eauto.
      * unfold on_message in Hp. rewrite (fr_on_append_entries wait_commit) in Hp by frs. left. eapply old_sub_refl; eauto.
      * unfold on_message in Hp. rewrite (fr_on_append_entries wait_commit) in Hp by frs. left. eapply old_sub_refl; eauto.
      * unfold on_message in Hp. rewrite (fr_on_append_entries wait_commit) in Hp by frs. left. eapply old_sub_refl; eauto.
      * rewrite (fr_msg_apply_cmd wait_commit) in Hp by frs. left. eapply old_sub_refl; eauto.
      * unfold on_message in Hp. cbn [nd start_S] in Hp.
        destruct (aget req (wait_reply x)) as [cbk|] eqn:Er; [|left; eapply old_sub_refl; eauto].
        destruct (negb okr); [rewrite nd_fire in Hp; left; eapply old_sub_refl; eauto|].
        destruct (_ <=? _); [rewrite nd_fire in Hp; left; eapply old_sub_refl; eauto|].
        cbn in Hp. apply ProofsCommitLog.In_aset in Hp. destruct Hp as [Hp|Hp]; [|left; eapply old_sub_refl; eauto].
        injection Hp as -> ->. rewrite local_subs_app in Ht. apply in_app_or in Ht. destruct Ht as [Ht|Ht].
        -- left. fold (subs_of a0 (wait_commit x)) in Ht. now apply subs_of_In.
        -- right. left. destruct cbk as [|id0|rn rid]; cbn in Ht; try contradiction.
           destruct Ht as [Ht|[]]. injection Ht as <- <-.
           apply (NI_wr _ _ _ _ _ (I (b, x) (ProofsCommitLog.aget_In _ _ _ Hx) Hlt) req).
           now apply ProofsCommitLog.aget_In.
      * rewrite (fr_msg_next_idx wait_commit) in Hp by frs. left. eapply old_sub_refl; eauto.
  - (* drop *)
    destruct (aget a (nodes g)) as [x|] eqn:Hx; [|discriminate]. injection ST as <- <-.
    apply (Stepped a x (idle_S (on_disconnected b x)) Hx); [rewrite nodes_chan_set, nodes_finish; reflexivity|reflexivity| |].
    + intros _ cm id Hq. left. cbn [nd idle_S] in Hq. now rewrite (fr_on_disconnected queue) in Hq by frs.
    + intros _ i subs t id Hp Ht. left. cbn [nd idle_S] in Hp. rewrite (fr_on_disconnected wait_commit) in Hp by frs.
      eapply old_sub_refl; eauto.
  - (* lose *)
    injection ST as <- <-. rewrite app_nil_r. intros p Hp Hlt. rewrite nodes_chan_set in Hp.
    rewrite <- (app_nil_r fw). now apply Old.
  - (* connect *)
    destruct (aget a (nodes g)) as [x|] eqn:Hx; [|discriminate]. injection ST as <- <-.
    apply (Stepped a x (idle_S (on_connected b x)) Hx); [|reflexivity| |].
    + rewrite nodes_finish. destruct (match aget b (nodes g) with Some y => negb (smem a (tconn y)) | None => true end); reflexivity.
    + intros _ cm id Hq. left. cbn [nd idle_S] in Hq. now rewrite (fr_on_connected queue) in Hq by frs.
    + intros _ i subs t id Hp Ht. left. cbn [nd idle_S] in Hp. rewrite (fr_on_connected wait_commit) in Hp by frs.
      eapply old_sub_refl; eauto.
  - (* submit *)
    destruct (aget n (nodes g)) as [x|] eqn:Hx; [|discriminate]. injection ST as <- <-.
    set (e := mk_env c 0 0 DEFAULT_BUDGET [] 0).
    apply (Stepped n x (api_submit e cm (cb_of cb) x) Hx); [apply nodes_finish|reflexivity| |].
    + intros _ cm' id Hq. unfold api_submit in Hq. apply submit_queue in Hq. destruct Hq as [Hq|Hq]; [now left|].
      right. injection Hq as -> Hcb. symmetry in Hcb. apply cb_of_local in Hcb. subst cb.
      left. apply in_or_app. right. now left.
    + intros _ i subs t id Hp Ht. left. unfold api_submit in Hp. rewrite (fr_submit wait_commit) in Hp by frs.
      eapply old_sub_refl; eauto.
  - (* admin: refused without dynamic membership *)
    destruct (aget n (nodes g)) as [x|] eqn:Hx; [|discriminate]. injection ST as <- <-.
    set (e := mk_env c 0 0 DEFAULT_BUDGET [] 0).
    apply (Stepped n x (api_admin e cm (cb_of cb) x) Hx); [apply nodes_finish|reflexivity| |].
    + intros _ cm' id Hq. left. unfold api_admin in Hq. cbn [cf e mk_env] in Hq. rewrite Hdyn in Hq. exact Hq.
    + intros _ i subs t id Hp Ht. left. unfold api_admin in Hp. cbn [cf e mk_env] in Hp. rewrite Hdyn in Hp.
      eapply old_sub_refl; eauto.
  - (* setver *)
    destruct (aget n (nodes g)) as [x|] eqn:Hx; [|discriminate]. injection ST as <- <-.
    set (e := mk_env c 0 0 DEFAULT_BUDGET [] 0).
    apply (Stepped n x (api_setver e cm (cb_of cb) x) Hx); [apply nodes_finish|reflexivity| |].
    + intros _ cm' id Hq. unfold api_setver in Hq. destruct (_ || _); [now left|].
      apply submit_queue in Hq. destruct Hq as [Hq|Hq]; [now left|].
      right. injection Hq as -> Hcb. symmetry in Hcb. apply cb_of_local in Hcb. subst cb.
      right. apply in_or_app. right. now left.
    + intros _ i subs t id Hp Ht. left. unfold api_setver in Hp.
      destruct (_ || _); [|rewrite (fr_submit wait_commit) in Hp by frs]; eapply old_sub_refl; eauto.
  - (* compact *)
    destruct (aget n (nodes g)) as [x|] eqn:Hx; [|discriminate]. injection ST as <- <-.
    apply (Stepped n x (idle_S (api_compact x)) Hx); [apply nodes_finish|reflexivity| |].
    + intros _ cm id Hq. now left.
    + intros _ i subs t id Hp Ht. left. eapply old_sub_refl; eauto.
  - (* kill *)
    injection ST as <- <-. rewrite app_nil_r. intros p Hp Hlt. cbn in Hp. apply ProofsCommitLog.In_adel in Hp.
    rewrite <- (app_nil_r fw). apply Old; [|exact Hlt].
    destruct (aget n (nodes g)) as [x|]; [destruct (disk_of c x)|]; exact Hp.
  - (* restart: a fresh node holds nothing *)
    injection ST as <- <-. intros p Hp Hlt. cbn in Hp. apply ProofsCommitLog.In_aset in Hp.
    destruct Hp as [->|Hp]; [|now apply Old]. cbn [fst snd].
    assert (E : forall y, (y = init_node (mk_env c now rnd DEFAULT_BUDGET [] 0) (if RO_BASE <=? n then None else Some n) oth sv \/
                           exists d, y = init_from_disk (mk_env c now rnd DEFAULT_BUDGET [] 0) (if RO_BASE <=? n then None else Some n) oth sv d) ->
                queue y = [] /\ wait_commit y = [] /\ wait_reply y = []).
    { intros y [->|[d ->]]; [cbn; auto|]. unfold init_from_disk. destruct (d_log d); cbn; auto. }
    match goal with |- NodeInv _ ?y _ _ _ => destruct (E y) as (E1 & E2 & E3) end.
    { destruct (aget n (disks g)) as [d|]; [destruct (RO_BASE <=? n); [left; reflexivity|right; eauto]|left; reflexivity]. }
    constructor; intros; rewrite ?E1, ?E2, ?E3 in *; contradiction.
Qed.

End Ghost.

(* ------------------------------------------------------------------------------------------ *)
(* the invariant along a run                                                                  *)

Section Run.
Variables (c : conf) (V : list nid).
Hypothesis NDV : NoDup V.
Hypothesis VRO : forall v, In v V -> v < RO_BASE.
Hypothesis VNE : V <> [].
Hypothesis Hb1 : 1 < batch c.
Hypothesis Hdyn : dyn c = false.
Hypothesis Hfd : file_dump c = false.

Lemma run_subinv evs : forall g gh st s hist fw g' gh',
  GI c V g gh st s -> SubInv c g s hist fw ->
  valid_from V st evs = true -> run_ok2 c g evs = true ->
  grun c g gh evs = Some (g', gh') ->
  exists s', kstar V s s' /\ GI c V g' gh' (RefineFinal.sts_after st evs) s' /\
             SubInv c g' s' (hist ++ evs) (fw ++ fwd_run c g evs).
Proof.
  induction evs as [|ev evs IH]; intros g gh st s hist fw g' gh' G I Hv Hr Hg; cbn in *.
  - injection Hg as <- <-. exists s. split; [constructor|]. split; [exact G|]. now rewrite !app_nil_r.
  - apply andb_true_iff in Hv as [Hev Hv].
    apply andb_true_iff in Hr as [Hsm Hr]. apply andb_true_iff in Hsm as [Hsm Hvb].
    destruct (gstep c g ev) as [[g1 r]|] eqn:Est; [|discriminate].
    destruct (step_sim c V NDV VRO VNE Hb1 Hdyn Hfd g gh st s ev g1 r G Hev Hsm Hvb Est) as (s1 & K1 & G1).
    pose proof (step_subinv c V NDV VRO VNE Hb1 Hdyn Hfd g gh st s hist fw ev g1 r _ _ s1 G I Est G1 K1) as I1.
    destruct (IH g1 _ _ s1 _ _ g' gh' G1 I1 Hv Hr Hg) as (s2 & K2 & G2 & I2).
    exists s2. split; [eapply kstar_trans; eauto|]. split; [exact G2|].
    rewrite <- !app_assoc in I2. exact I2.
Qed.

End Run.

Lemma SubInv_init c V : SubInv c ginit (M.init (absV V)) [] [].
Proof. intros p []. Qed.

(* C02_success_is_committed_core2, the case of a command submitted at the node that appended it
   (the callback id was never parked in a pending-reply table): the entry that fired the callback
   carries the command submitted under that id *)
Theorem success_is_committed_core2_direct :
  forall (c : conf) (V : list nid) (evs1 : list event) (ev : event) (evs2 : list event)
         (g1 g2 g3 : gstate) (x : nid) (s : S) (id r : N),
  dyn c = false -> file_dump c = false -> 1 < batch c ->
  valid V (evs1 ++ ev :: evs2) = true -> run_ok2 c ginit (evs1 ++ ev :: evs2) = true ->
  run_trace c ginit evs1 = Some g1 -> gstep c g1 ev = Some (g2, Some (x, s)) -> x < RO_BASE ->
  In (id, r, SUCCESS) (fired (outs s)) ->
  run_trace c g2 evs2 = Some g3 ->
  ~ In id (fwd_run c ginit evs1) ->
  exists en cm,
    submitted x cm id evs1 /\ ecmd en = cm /\
    In en (log (nd s)) /\ eidx en <= commit (nd s) /\
    forall b xb eb, aget b (nodes g3) = Some xb -> b < RO_BASE -> In eb (log xb) -> eidx eb = eidx en ->
                    eidx en <= commit xb -> eb = en.
Proof.
  intros c V evs1 ev evs2 g1 g2 g3 x s id r Hd Hf Hb Hv Hok R1 ST Hx Hin R3 Hnf.
  destruct (ProofsCallbacksCore2.success_is_committed_core2_partial c V evs1 ev evs2 g1 g2 g3 x s id r
              Hd Hf Hb Hv Hok R1 ST Hx Hin R3)
    as (en & x0 & now & rnd & bud & ord & sl & -> & Hx0 & Hx2 & Hen & Hlo & Hic & Hsub & Hall).
  assert (F : core_frag2 c V (evs1 ++ ETick x now rnd bud ord sl :: evs2)) by (apply core_frag_intro; assumption).
  destruct (core_frag_facts c V _ F) as (ND & HV & HNE & Hb1 & Hdyn & Hfd & Hvf & Hro).
  rewrite RefineFinal.valid_from_app in Hvf. apply andb_true_iff in Hvf as [Hv1 Hv2].
  rewrite (run_ok2_app c ginit evs1 _ g1 R1) in Hro. apply andb_true_iff in Hro as [Hok1 Hok2].
  destruct (proj1 (grun_run_trace c ginit gh0 evs1 g1) R1) as [gh1 Hg1].
  destruct (run_subinv c V ND HV HNE Hb1 Hdyn Hfd evs1 ginit gh0 [] (M.init (absV V)) [] [] g1 gh1
              (GI_init c V) (SubInv_init c V) Hv1 Hok1 Hg1) as (s1 & K1 & G1 & I1).
  cbn [app] in I1.
  (* the subscription was there before the tick *)
  set (e := mk_env c now rnd bud ord sl) in *.
  destruct (quiet_tick_pre e x0 Hfd) as (_ & Qw & _).
  apply subs_of_In in Hsub. destruct Hsub as (subs0 & Hp0 & Ht0). apply Qw in Hp0.
  pose proof (I1 (x, x0) (ProofsCommitLog.aget_In _ _ _ Hx0) Hx) as NI. cbn [fst snd] in NI.
  destruct (NI_wc _ _ _ _ _ _ NI _ _ _ _ Hp0 Ht0) as [Hfw|(cm & Hsm & Hll)]; [contradiction|].
  (* the step itself *)
  cbn [valid_from] in Hv2. apply andb_true_iff in Hv2 as [Hev _].
  cbn [run_ok2] in Hok2. apply andb_true_iff in Hok2 as [Hsm2 _]. apply andb_true_iff in Hsm2 as [Hsm2 Hvb].
  destruct (step_sim c V ND HV HNE Hb1 Hdyn Hfd g1 gh1 _ s1 _ g2 _ G1 Hev Hsm2 Hvb ST) as (s2 & K2 & G2).
  pose proof (entry_in_llog c V ND HV HNE Hb1 g2 _ _ s2 x (nd s) en G2 Hx2 Hx Hen) as L2.
  pose proof (llog_has_mono c s1 s2 _ _ _ (llog_mono_kstar V s1 s2 (GI_reach c V g1 gh1 _ s1 G1) K2) Hll) as L1.
  unfold llog_has in L1. rewrite L2 in L1.
  assert (L3 : absE (pk c) en = absE (pk c) (mkEntry cm (eidx en) (eterm en))) by congruence.
  apply absE_inj in L3. clear L1. rename L3 into L1.
  exists en, cm. split; [exact Hsm|]. split; [rewrite L1; reflexivity|]. split; [exact Hen|]. split; [exact Hic|exact Hall].
Qed.

(* the additional hypothesis holds on the Tier C2 example run: callback 12, submitted at the leader
   (node 1), was never forwarded before it fires in step 43 *)
Lemma not_in_dec id l : forallb (fun y => negb (y =? id)) l = true -> ~ In id l.
Proof.
  intros H Hin. rewrite forallb_forall in H. specialize (H id Hin). rewrite N.eqb_refl in H. discriminate.
Qed.

Example success_direct_example :
  ~ In 12 (fwd_run Refine2Example.t2_conf ginit (firstn 43 Refine2Example.t2_traceA)) /\
  In (ESubmit 1 (Refine2Example.t2_cmd 8) 12) (firstn 43 Refine2Example.t2_traceA).
Proof.
  split; [apply not_in_dec; vm_compute; reflexivity|].
  vm_compute. repeat (first [left; reflexivity|right]).
Qed.
