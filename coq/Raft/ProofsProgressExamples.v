(* Concrete instances of the hypotheses of the C05 theorems, and the statement that is out of
   reach. *)
From Coq Require Import ZArith NArith List Bool Lia ZifyBool ZifyN.
From RecordUpdate Require Import RecordSet.
From PSO Require Import Raft.Types Raft.Node Raft.Net Raft.Obs Raft.ProofsSnapshotBase Raft.ProofsSnapshot
  Raft.ProofsSnapshotChunks Raft.ProofsDisk Raft.ProofsProgress Raft.ProofsProgressBackoff
  Raft.ProofsSnapshotExamples.
Import ListNotations.
Import RecordSetNotations.
Open Scope N_scope.

(* the leader of the one-voter trace with one command queued *)
Example ex_queue_drains :
  exists n, node_after cx (firstn 6 pre18) 1 = Some n /\
    let e := mk_env cx 80 0 30 [] 9 in let s := start_S e n in
    (0 < period (cf e))%Z /\ exc s = 0 /\ calm e s /\ leader (nd s) <> None /\
    length (queue (nd s)) = 1%nat /\ role (nd s) = LEADER /\
    queue (nd (check_commands e s)) = [] /\
    map eidx (log (nd (check_commands e s))) = map eidx (log n) ++ [4].
Proof.
  eexists. split; [vm_compute; reflexivity|]. cbv zeta.
  split; [reflexivity|]. split; [reflexivity|]. split; [left; reflexivity|].
  split; [vm_compute; discriminate|]. vm_compute. repeat split; reflexivity.
Qed.

(* a follower that knows its leader forwards; one that does not (and must not wait) fails *)
Example ex_queue_forward :
  let e := mk_env cx 80 0 30 [] 9 in
  let n := fresh2 <| leader := Some 1 |> <| queue := [(cmd18 7, CbLocal 5); (cmd18 8, CbNone)] |> in
  let s' := check_commands e (start_S e n) in
  calm e (start_S e n) /\ queue (nd s') = [] /\
  outs s' = [Send 1 (ApplyCmd (cmd18 7) (Some 1)); Send 1 (ApplyCmd (cmd18 8) None)] /\
  wait_reply (nd s') = [(1, CbLocal 5)].
Proof. cbv zeta. split; [right; vm_compute; discriminate|]. vm_compute. repeat split; reflexivity. Qed.

Example ex_queue_waits :
  let e := mk_env cx 80 0 30 [] 9 in
  let n := fresh2 <| queue := [(cmd18 7, CbLocal 5)] |> in
  leader n = None /\ wait_leader (cf e) = true /\ check_commands e (start_S e n) = start_S e n.
Proof. vm_compute. repeat split; reflexivity. Qed.

(* the send loop with a tiny budget: the clock jumps, no fuel exception *)
Example ex_send_loop :
  exists n, node_after cx tr10 1 = Some n /\
    let e := mk_env cx 120 0 0 [] 9 in
    let n2 := n <| others := [2; 3] |> <| connected := [2; 3] |> <| tconn := [2; 3] |>
                <| next_idx := [(2, 1); (3, 5)] |> <| match_idx := [(2, 0); (3, 0)] |> in
    exc (send_ae e (start_S e n2)) = 0 /\ njmp (send_ae e (start_S e n2)) = 1.
Proof. eexists. split; [vm_compute; reflexivity|]. vm_compute. split; reflexivity. Qed.

(* ---- back-off: leader log terms [0;1;1;3;3], follower [0;1;1;2;2;2] ---- *)
Definition l1 := mkEntry (noop_cmd 5) 1 0.
Definition l2 := mkEntry (noop_cmd 5) 2 1.
Definition l3 := mkEntry (cmd18 7) 3 1.
Definition l4 := mkEntry (noop_cmd 5) 4 3.
Definition l5 := mkEntry (cmd18 8) 5 3.
Definition f4 := mkEntry (cmd18 9) 4 2.
Definition f5 := mkEntry (cmd18 10) 5 2.
Definition f6 := mkEntry (cmd18 11) 6 2.
Definition Lx : list entry := [l1; l2; l3; l4; l5].
Definition Fx : list entry := [l1; l2; l3; f4; f5; f6].
Definition nlx : node :=
  (init_node ex (Some 1) [2] 0) <| role := LEADER |> <| term := 3 |> <| log := Lx |> <| tconn := [2] |>
    <| next_idx := [(2, 6)] |> <| match_idx := [(2, 0)] |>.
Definition nfx : node := (init_node ex (Some 2) [1] 0) <| term := 2 |> <| log := Fx |> <| tconn := [1] |>.

Example ex_backoff_hyps :
  dyn (cf ex) = false /\ 1 <= batch (cf ex) /\ no_big ex Lx /\ log_wf Lx /\
  binv 1 2 3 Lx 6 [l1] [l2; l3] [l4; l5] [l1] [f4; f5; f6] nlx nfx /\
  mu 6 [l2; l3] [l4; l5] = 4.
Proof.
  split; [reflexivity|]. split; [vm_compute; discriminate|].
  split.
  { intros en Hin. cbn in Hin. destruct Hin as [<-|[<-|[<-|[<-|[<-|[]]]]]]; vm_compute; reflexivity. }
  split; [vm_compute; repeat split; reflexivity|].
  split; [|reflexivity].
  constructor; try reflexivity; try (exists 0; reflexivity); try discriminate;
    try (vm_compute; discriminate); try (vm_compute; repeat split; reflexivity).
  intros i a b Ha Hb. destruct i as [|[|i]]; cbn in Ha, Hb.
  - inversion Ha; inversion Hb; subst. vm_compute. discriminate.
  - inversion Ha; inversion Hb; subst. vm_compute. discriminate.
  - destruct i; discriminate.
Qed.

(* two rejections (next 6 -> 5 -> 4), then the accepted round *)
Example ex_backoff_run :
  map (fun k => aget 2 (next_idx (fst (rounds k ex 1 2 (nlx, nfx))))) [0; 1; 2; 3; 4]%nat =
    [Some 6; Some 5; Some 4; Some 6; Some 6] /\
  log (snd (rounds 2 ex 1 2 (nlx, nfx))) = Fx /\
  log (snd (rounds 3 ex 1 2 (nlx, nfx))) = Lx /\
  aget 2 (match_idx (fst (rounds 3 ex 1 2 (nlx, nfx)))) = Some 5.
Proof. vm_compute. repeat split; reflexivity. Qed.

(* ---- what is NOT proved ---- *)
(* Liveness of the whole cluster: after the faults stop (a suffix of the trace with timely
   ticks, every message delivered, no kill / drop / loss), within a bounded number of election
   time-outs there is exactly one leader and all voters have the same applied index and the same
   state.  It quantifies over every reachable state and needs the full reachable-state
   invariants plus a fairness argument over the randomised time-outs; this development does
   not prove it.  The check searches fault histories for wedged states instead. *)
Definition quiet_event (ev : event) : bool :=
  match ev with ETick _ _ _ _ _ _ | EDeliver _ _ _ _ _ => true | _ => false end.

Definition C05_convergence_full : Prop :=
  forall c evs g, run_trace c ginit evs = Some g ->
  exists bound : nat, forall quiet g',
    forallb quiet_event quiet = true -> (bound <= length quiet)%nat ->
    run_trace c g quiet = Some g' ->
    (forall a b, chan_get a b g' = []) ->
    exists l nl, aget l (nodes g') = Some nl /\ role nl = LEADER /\
      forall x n, aget x (nodes g') = Some n -> x < RO_BASE ->
        (role n = LEADER -> x = l) /\ applied n = applied nl /\ hist n = hist nl.
