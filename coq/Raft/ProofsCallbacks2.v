(* C02, local contract: what each callback outcome says about the node's own log and tables.
   - an error outcome (QUEUE_FULL, MISSING_LEADER, NOT_LEADER, REQUEST_DENIED) is produced only on
     a path that does not append the command and that has taken it out of the queue;
   - SUCCESS / DISCARDED are produced only by the apply loop, from the subscription recorded
     for the applied index: SUCCESS iff the recorded term is the entry's term, with the result
     do_apply computed at that moment. *)
From Coq Require Import ZArith NArith List Bool Lia ZifyBool ZifyN.
From RecordUpdate Require Import RecordSet.
From PSO Require Import Raft.Types Raft.Node Raft.Net Raft.Obs Raft.ProofsApplyBase Raft.ProofsApply Raft.ProofsCallbacks.
Import ListNotations.
Import RecordSetNotations.
Open Scope N_scope.

Lemma outs_emit : forall o s, outs (emit o s) = outs s ++ [o].
Proof. reflexivity. Qed.
Lemma nd_emit : forall o s, nd (emit o s) = nd s.
Proof. reflexivity. Qed.
Lemma fired_one_fired : forall id r e, fired [Fired id r e] = [(id, r, e)].
Proof. reflexivity. Qed.
Lemma aresps_one_fired : forall id r e, aresps [Fired id r e] = [].
Proof. reflexivity. Qed.
Lemma fired_one_send : forall d m, fired [Send d m] = [].
Proof. reflexivity. Qed.

#[global] Arguments aresps : simpl never.

(* ------------------------------------------------------------------ *)
(* _applyCommand                                                        *)
(* ------------------------------------------------------------------ *)
Theorem submit_spec : forall e c cbk s,
  let s' := submit e c cbk s in
  (* refused: nothing but the error leaves the call; the command is nowhere in the node *)
  (qsize (cf e) < N.of_nat (length (queue (nd s))) /\ nd s' = nd s /\
   fired (outs s') = fired (outs s) ++ match cbk with CbLocal id => [(id, 0, QUEUE_FULL)] | _ => [] end /\
   (aresps (outs s') = aresps (outs s) \/
    exists rn rid, cbk = CbRemote rn rid /\ aresps (outs s') = aresps (outs s) ++ [(rn, rid, false, QUEUE_FULL, 0)]))
  \/
  (* accepted: queued, nothing fired *)
  (queue (nd s') = queue (nd s) ++ [(c, cbk)] /\ log (nd s') = log (nd s) /\
   fired (outs s') = fired (outs s) /\ aresps (outs s') = aresps (outs s) /\
   wait_commit (nd s') = wait_commit (nd s) /\ wait_reply (nd s') = wait_reply (nd s)).
Proof.
  intros e c cbk s. cbn zeta. unfold submit.
  destruct (qsize (cf e) <? N.of_nat (length (queue (nd s)))) eqn:Q.
  - left. split; [lia|]. rewrite nd_call_err. split; auto.
    destruct cbk as [|id|rn rid]; cbn [call_err].
    + rewrite app_nil_r. auto.
    + rewrite outs_emit, fired_app, aresps_app, fired_one_fired, aresps_one_fired, app_nil_r. auto.
    + unfold send. destruct (smem rn (tconn (nd s))); rewrite ?app_nil_r; auto.
      rewrite outs_emit, fired_app, aresps_app, fired_one_send, app_nil_r. split; auto.
      right. exists rn, rid. auto.
  - right. cbn. auto 10.
Qed.

(* ------------------------------------------------------------------ *)
(* _checkCommandsToApply: one dequeued command                          *)
(* ------------------------------------------------------------------ *)
Definition err_local (err : N) : Prop := err = REQUEST_DENIED \/ err = MISSING_LEADER.
Definition err_remote (err : N) : Prop := err = REQUEST_DENIED \/ err = NOT_LEADER \/ err = MISSING_LEADER.

Theorem check_one_spec : forall e c cbk s,
  let s' := check_one e c cbk s in
  let idx := last_idx (log (nd s)) + 1 in
  let tm := term (nd s) in
  queue (nd s') = queue (nd s) /\ uview_of s' = uview_of s /\
  exists F R, fired (outs s') = fired (outs s) ++ F /\ aresps (outs s') = aresps (outs s) ++ R /\
  ((* appended by a leader: no error; a local callback is subscribed at (idx, tm), a remote
      requester is told (idx, tm) *)
   (role (nd s) = LEADER /\ log (nd s') = log (nd s) ++ [mkEntry c idx tm] /\ F = [] /\
    wait_reply (nd s') = wait_reply (nd s) /\
    match cbk with
    | CbNone => R = [] /\ wait_commit (nd s') = wait_commit (nd s)
    | CbLocal id => R = [] /\
        wait_commit (nd s') = aset idx (subs_of idx (wait_commit (nd s)) ++ [(tm, cbk)]) (wait_commit (nd s))
    | CbRemote rn rid => (R = [] \/ R = [(rn, rid, true, idx, tm)]) /\ wait_commit (nd s') = wait_commit (nd s)
    end)
   \/
   (* not appended *)
   (log (nd s') = log (nd s) /\ wait_commit (nd s') = wait_commit (nd s) /\
    ((* forwarded to the leader (a local callback waits for the reply) *)
     (role (nd s) <> LEADER /\ leader (nd s) <> None /\ F = [] /\ R = [] /\
      match cbk with
      | CbLocal id => wait_reply (nd s') = aset (local_ctr (nd s) + 1) cbk (wait_reply (nd s))
      | CbNone => wait_reply (nd s') = wait_reply (nd s)
      | CbRemote _ _ => False
      end)
     \/
     (* refused *)
     (wait_reply (nd s') = wait_reply (nd s) /\
      match cbk with
      | CbNone => F = [] /\ R = []
      | CbLocal id => exists err, F = [(id, 0, err)] /\ R = [] /\ err_local err
      | CbRemote rn rid => exists err, F = [] /\ (R = [] \/ R = [(rn, rid, false, err, 0)]) /\ err_remote err
      end)))).
Proof.
  intros e c cbk s. cbn zeta. unfold check_one.
  assert (SND : forall d m s0, (aresps [Send d m] = [] -> aresps (outs (send d m s0)) = aresps (outs s0)) /\
                               (aresps (outs (send d m s0)) = aresps (outs s0) \/
                                aresps (outs (send d m s0)) = aresps (outs s0) ++ aresps [Send d m]) /\
                               fired (outs (send d m s0)) = fired (outs s0) /\ nd (send d m s0) = nd s0).
  { intros d m s0. unfold send. destruct (smem d (tconn (nd s0))); auto.
    rewrite outs_emit, nd_emit, fired_app, aresps_app, fired_one_send, !app_nil_r.
    repeat split; auto. intros ->. now rewrite app_nil_r. }
  destruct (role (nd s) =? LEADER) eqn:RL.
  - (* leader *)
    assert (RL' : role (nd s) = LEADER) by lia.
    set (req := if dyn (cf e) then membership_of c else None).
    assert (CC : exists s1 acc, (match req with None => (s, true) | Some (a, x) => change_cluster a x s end) = (s1, acc)
                                /\ view_of s1 = view_of s).
    { destruct req as [[a x]|].
      - destruct (change_cluster a x s) as [s1 acc] eqn:E. exists s1, acc. split; auto.
        change s1 with (fst (s1, acc)). rewrite <- E. apply view_change_cluster.
      - exists s, true. auto. }
    destruct CC as (s1 & acc & CC & V1). rewrite CC.
    pose proof (view_uview _ _ V1) as U1.
    apply view_inv in V1 as (Q1 & R1 & C1 & _ & _ & _ & _ & L1 & F1 & G1 & _ & A1).
    destruct acc.
    + (* accepted *)
      set (ent := mkEntry c (last_idx (log (nd s)) + 1) (term (nd s))).
      set (s2 := upd (log_add ent) s1).
      set (s3 := match req with Some _ => upd _ s2 | None => s2 end).
      assert (N3 : queue (nd s3) = queue (nd s) /\ uview_of s3 = uview_of s /\ log (nd s3) = log (nd s) ++ [ent] /\
                   wait_reply (nd s3) = wait_reply (nd s) /\ wait_commit (nd s3) = wait_commit (nd s) /\
                   fired (outs s3) = fired (outs s) /\ aresps (outs s3) = aresps (outs s)).
      { assert (O3 : outs s3 = outs s1) by (unfold s3; destruct req; reflexivity).
        assert (X1 : queue (nd s3) = queue (nd s1)) by (unfold s3; destruct req; reflexivity).
        assert (X2 : uview_of s3 = uview_of s1) by (unfold s3; destruct req; reflexivity).
        assert (X3 : log (nd s3) = log (nd s1) ++ [ent]) by (unfold s3; destruct req; reflexivity).
        assert (X4 : wait_reply (nd s3) = wait_reply (nd s1)) by (unfold s3; destruct req; reflexivity).
        assert (X5 : wait_commit (nd s3) = wait_commit (nd s1)) by (unfold s3; destruct req; reflexivity).
        rewrite O3, X1, X2, X3, X4, X5, Q1, R1, C1, F1, G1, A1, U1. auto 10. }
      destruct N3 as (Q3 & U3 & G3 & R3 & C3 & F3 & A3).
      assert (FIN : forall s4 R,
                 queue (nd s4) = queue (nd s) -> uview_of s4 = uview_of s -> log (nd s4) = log (nd s) ++ [ent] ->
                 wait_reply (nd s4) = wait_reply (nd s) -> fired (outs s4) = fired (outs s) ->
                 aresps (outs s4) = aresps (outs s) ++ R ->
                 let s' := if use_batch (cf e) then s4 else send_ae e s4 in
                 queue (nd s') = queue (nd s) /\ uview_of s' = uview_of s /\ log (nd s') = log (nd s) ++ [ent] /\
                 wait_reply (nd s') = wait_reply (nd s) /\ wait_commit (nd s') = wait_commit (nd s4) /\
                 fired (outs s') = fired (outs s) ++ [] /\ aresps (outs s') = aresps (outs s) ++ R).
      { intros s4 R H1 H2 H3 H4 H5 H6. cbn zeta. rewrite app_nil_r.
        destruct (use_batch (cf e)); [auto 10|].
        pose proof (view_send_ae e s4) as V. pose proof (view_uview _ _ V) as U.
        apply view_inv in V as (Q & W & C & _ & _ & _ & _ & _ & F & G & _ & A).
        rewrite Q, U, G, W, C, F, A. auto 10. }
      destruct cbk as [|id|rn rid].
      * destruct (FIN s3 [] Q3 U3 G3 R3 F3) as (K1 & K2 & K3 & K4 & K5 & K6 & K7); [now rewrite app_nil_r|].
        split; auto. split; auto. exists [], []. split; auto. split; auto. left. rewrite K5. auto 10.
      * set (s4 := upd _ s3).
        destruct (FIN s4 []) as (K1 & K2 & K3 & K4 & K5 & K6 & K7); auto.
        { now rewrite app_nil_r. }
        split; auto. split; auto. exists [], []. split; auto. split; auto. left. rewrite K5.
        repeat split; auto. unfold s4. cbn. rewrite C3. reflexivity.
      * destruct (SND rn (ApplyResp rid true (last_idx (log (nd s)) + 1) (term (nd s))) s3) as (_ & S2 & S3 & S4).
        destruct S2 as [S2|S2].
        -- destruct (FIN (send rn (ApplyResp rid true (last_idx (log (nd s)) + 1) (term (nd s))) s3) [])
             as (K1 & K2 & K3 & K4 & K5 & K6 & K7); rewrite ?S4; auto.
           { unfold uview_of. rewrite S4. exact U3. } { now rewrite S3. } { now rewrite S2, app_nil_r. }
           split; auto. split; auto. exists [], []. split; auto. split; auto. left. rewrite K5, S4. auto 10.
        -- destruct (FIN (send rn (ApplyResp rid true (last_idx (log (nd s)) + 1) (term (nd s))) s3)
                         [(rn, rid, true, last_idx (log (nd s)) + 1, term (nd s))])
             as (K1 & K2 & K3 & K4 & K5 & K6 & K7); rewrite ?S4; auto.
           { unfold uview_of. rewrite S4. exact U3. } { now rewrite S3. } { now rewrite S2, A3. }
           split; auto. split; auto. eexists [], _. split; eauto. split; eauto. left. rewrite K5, S4. auto 10.
    + (* denied *)
      destruct cbk as [|id|rn rid].
      * split; [exact Q1|]. split; [exact U1|]. exists [], []. rewrite !app_nil_r.
        split; [exact F1|]. split; [exact A1|]. right. split; [exact G1|]. split; [exact C1|].
        right. split; [exact R1|]. split; reflexivity.
      * rewrite outs_emit, nd_emit, fired_app, aresps_app, F1, A1, fired_one_fired, aresps_one_fired.
        split; [exact Q1|]. split; [exact U1|]. exists [(id, 0, REQUEST_DENIED)], [].
        split; [reflexivity|]. split; [reflexivity|]. right. split; [exact G1|]. split; [exact C1|].
        right. split; [exact R1|]. exists REQUEST_DENIED. unfold err_local. auto.
      * destruct (SND rn (ApplyResp rid false REQUEST_DENIED 0) s1) as (_ & S2 & S3 & S4).
        rewrite S4. split; [exact Q1|]. split; [unfold uview_of; rewrite S4; exact U1|].
        rewrite S3, F1. exists [].
        destruct S2 as [S2|S2]; rewrite S2, A1.
        -- exists []. rewrite !app_nil_r. split; [reflexivity|]. split; [reflexivity|].
           right. split; [exact G1|]. split; [exact C1|]. right. split; [exact R1|].
           exists REQUEST_DENIED. unfold err_remote. auto.
        -- eexists. rewrite app_nil_r. split; [reflexivity|]. split; [reflexivity|].
           right. split; [exact G1|]. split; [exact C1|]. right. split; [exact R1|].
           exists REQUEST_DENIED. unfold err_remote. split; auto.
  - (* not the leader *)
    assert (RL' : role (nd s) <> LEADER) by lia.
    destruct (leader (nd s)) as [l|] eqn:LD.
    + destruct cbk as [|id|rn rid].
      * destruct (SND l (ApplyCmd c None) s) as (S1 & _ & S3 & S4). rewrite S4, S3, S1 by reflexivity.
        split; [reflexivity|]. split; [unfold uview_of; now rewrite S4|].
        exists [], []. rewrite !app_nil_r. split; [reflexivity|]. split; [reflexivity|].
        right. split; [reflexivity|]. split; [reflexivity|]. left.
        split; [exact RL'|]. split; [discriminate|]. auto.
      * match goal with |- context [send l ?m ?s0] => destruct (SND l m s0) as (S1 & _ & S3 & S4) end.
        rewrite S4, S3, S1 by reflexivity. split; [reflexivity|].
        split; [unfold uview_of; rewrite S4; reflexivity|].
        exists [], []. rewrite !app_nil_r. split; [reflexivity|]. split; [reflexivity|].
        right. split; [reflexivity|]. split; [reflexivity|]. left.
        split; [exact RL'|]. split; [discriminate|]. split; [reflexivity|]. split; reflexivity.
      * destruct (SND rn (ApplyResp rid false NOT_LEADER 0) s) as (_ & S2 & S3 & S4).
        rewrite S4. split; [reflexivity|]. split; [unfold uview_of; now rewrite S4|].
        rewrite S3. exists [].
        destruct S2 as [S2|S2]; rewrite S2.
        -- exists []. rewrite !app_nil_r. split; [reflexivity|]. split; [reflexivity|].
           right. split; [reflexivity|]. split; [reflexivity|]. right. split; [reflexivity|].
           exists NOT_LEADER. unfold err_remote. auto.
        -- eexists. rewrite app_nil_r. split; [reflexivity|]. split; [reflexivity|].
           right. split; [reflexivity|]. split; [reflexivity|]. right. split; [reflexivity|].
           exists NOT_LEADER. unfold err_remote. split; auto.
    + rewrite nd_call_err. split; [reflexivity|]. split; [unfold uview_of; now rewrite nd_call_err|].
      destruct cbk as [|id|rn rid]; cbn [call_err].
      * exists [], []. rewrite !app_nil_r. split; [reflexivity|]. split; [reflexivity|].
        right. split; [reflexivity|]. split; [reflexivity|]. right. split; [reflexivity|]. split; reflexivity.
      * exists [(id, 0, MISSING_LEADER)], [].
        rewrite outs_emit, fired_app, aresps_app, fired_one_fired, aresps_one_fired.
        split; [reflexivity|]. split; [reflexivity|].
        right. split; [reflexivity|]. split; [reflexivity|]. right. split; [reflexivity|].
        exists MISSING_LEADER. unfold err_local. auto.
      * destruct (SND rn (ApplyResp rid false MISSING_LEADER 0) s) as (_ & S2 & S3 & S4).
        rewrite S3. exists [].
        destruct S2 as [S2|S2]; rewrite S2.
        -- exists []. rewrite !app_nil_r. split; [reflexivity|]. split; [reflexivity|].
           right. split; [reflexivity|]. split; [reflexivity|]. right. split; [reflexivity|].
           exists MISSING_LEADER. unfold err_remote. auto.
        -- eexists. rewrite app_nil_r. split; [reflexivity|]. split; [reflexivity|].
           right. split; [reflexivity|]. split; [reflexivity|]. right. split; [reflexivity|].
           exists MISSING_LEADER. unfold err_remote. split; auto.
Qed.

(* ------------------------------------------------------------------ *)
(* apply_command_response on the requesting node                        *)
(* ------------------------------------------------------------------ *)
Theorem apply_resp_spec : forall e from req okr a b n,
  let s' := on_message e from (ApplyResp req okr a b) n in
  log (nd s') = log n /\ queue (nd s') = queue n /\ uview_of s' = uview_of (start_S e n) /\
  aresps (outs s') = [] /\
  match aget req (wait_reply n) with
  | None => nd s' = n /\ fired (outs s') = []          (* unknown / already answered: ignored *)
  | Some cbk =>
    wait_reply (nd s') = adel req (wait_reply n) /\
    if okr then
      (* a late answer (the index is already applied here): the callback is told LEADER_CHANGED *)
      (if a <=? applied n then
         wait_commit (nd s') = wait_commit n /\
         fired (outs s') = match cbk with CbLocal id => [(id, 0, LEADER_CHANGED)] | _ => [] end
       else fired (outs s') = [] /\
            wait_commit (nd s') = aset a (subs_of a (wait_commit n) ++ [(b, cbk)]) (wait_commit n))
    else
      wait_commit (nd s') = wait_commit n /\
      fired (outs s') = match cbk with CbLocal id => [(id, 0, a)] | _ => [] end
  end.
Proof.
  intros e from req okr a b n. cbn zeta. unfold on_message.
  change (nd (start_S e n)) with n.
  destruct (aget req (wait_reply n)) as [cbk|]; [|cbn; auto 10].
  destruct okr; cbn [negb].
  - change (applied (nd (upd (fun n0 => n0 <| wait_reply := adel req (wait_reply n0) |>) (start_S e n)))) with (applied n).
    destruct (a <=? applied n) eqn:A.
    + rewrite fire_nd, fire_outs. cbn [upd nd start_S outs app]. cbn.
      repeat split; auto.
      * unfold uview_of. now rewrite fire_nd.
      * destruct cbk; reflexivity.
      * destruct cbk; reflexivity.
    + cbn. auto 12.
  - rewrite fire_nd, fire_outs. cbn [upd nd start_S outs app]. cbn.
    repeat split; auto.
    + unfold uview_of. now rewrite fire_nd.
    + destruct cbk; reflexivity.
    + destruct cbk; reflexivity.
Qed.

(* ------------------------------------------------------------------ *)
(* who is told what by the apply loop                                   *)
(* ------------------------------------------------------------------ *)
Lemma fired_run_in : forall run h wc id r err,
  In (id, r, err) (fired_run h wc run) ->
  exists pre en post t,
    run = pre ++ en :: post /\
    In (t, id) (local_subs (subs_of (eidx en) wc)) /\
    ((err = SUCCESS /\ t = eterm en /\ r = result_of (h ++ replay pre) (ecmd en)) \/
     (err = DISCARDED /\ t <> eterm en /\ r = 0)).
Proof.
  induction run as [|en run IH]; intros h wc id r err I; cbn [fired_run] in I; [destruct I|].
  apply in_app_or in I as [I|I].
  - apply in_map_iff in I as [[t id'] [E I]]. unfold outcome in E. cbn [fst snd] in E.
    exists [], en, run, t. cbn [app replay flat_map]. rewrite app_nil_r.
    destruct (t =? eterm en) eqn:T; injection E as -> <- <-; split; auto; split; auto.
    + left. repeat split; auto. lia.
    + right. repeat split; auto. lia.
  - apply IH in I as (pre & en' & post & t & E & I & O).
    exists (en :: pre), en', post, t. rewrite E. split; auto. split; auto.
    change (replay (en :: pre)) with (cmd_effect (ecmd en) ++ replay pre). rewrite app_assoc. exact O.
Qed.

(* ------------------------------------------------------------------ *)
(* helpers that only produce outcomes of a given kind                   *)
(* ------------------------------------------------------------------ *)
Definition fires_only (P : N * N * N -> Prop) (Q : nid * N * bool * N * N -> Prop) (f : S -> S) : Prop :=
  forall s, exists F R, fired (outs (f s)) = fired (outs s) ++ F /\ Forall P F /\
                        aresps (outs (f s)) = aresps (outs s) ++ R /\ Forall Q R.

Lemma fires_only_view : forall P Q f, quiet f -> fires_only P Q f.
Proof.
  intros P Q f H s. exists [], []. rewrite !app_nil_r.
  destruct (view_inv _ _ (H s)) as (_ & _ & _ & _ & _ & _ & _ & _ & F & _ & _ & A). auto.
Qed.

Lemma fires_only_sview : forall P Q f, squiet f -> fires_only P Q f.
Proof.
  intros P Q f H s. exists [], []. rewrite !app_nil_r.
  destruct (sview_inv _ _ (H s)) as (_ & _ & _ & _ & _ & _ & _ & _ & F & A). auto.
Qed.

Lemma fires_only_id : forall P Q, fires_only P Q (fun s => s).
Proof. intros P Q s. exists [], []. rewrite !app_nil_r. auto. Qed.

Lemma fires_only_comp : forall P Q f g, fires_only P Q f -> fires_only P Q g -> fires_only P Q (fun s => g (f s)).
Proof.
  intros P Q f g Hf Hg s. destruct (Hf s) as (F1 & R1 & A1 & B1 & C1 & D1).
  destruct (Hg (f s)) as (F2 & R2 & A2 & B2 & C2 & D2).
  exists (F1 ++ F2), (R1 ++ R2). rewrite A2, A1, C2, C1, !app_assoc.
  repeat split; auto; apply Forall_app; auto.
Qed.

Lemma fires_only_andthen : forall P Q f g, fires_only P Q f -> fires_only P Q g -> fires_only P Q (f ;; g).
Proof.
  intros P Q f g Hf Hg s. unfold andthen. destruct (ok (f s)).
  - apply (fires_only_comp P Q f g Hf Hg s).
  - apply Hf.
Qed.

Lemma fires_only_weaken : forall (P P' : N * N * N -> Prop) (Q Q' : nid * N * bool * N * N -> Prop) f,
  (forall x, P x -> P' x) -> (forall x, Q x -> Q' x) -> fires_only P Q f -> fires_only P' Q' f.
Proof.
  intros P P' Q Q' f HP HQ H s. destruct (H s) as (F & R & A & B & C & D).
  exists F, R. repeat split; auto; eapply Forall_impl; eauto.
Qed.

(* outcome kinds *)
Definition is_leader_changed (x : N * N * N) : Prop := snd (fst x) = 0 /\ snd x = LEADER_CHANGED.
Definition is_local_err (x : N * N * N) : Prop := snd (fst x) = 0 /\ err_local (snd x).
Definition is_queue_full (x : N * N * N) : Prop := snd (fst x) = 0 /\ snd x = QUEUE_FULL.
Definition resp_ok (x : nid * N * bool * N * N) : Prop :=
  match x with (_, _, k, a, _) => k = true \/ err_remote a \/ a = QUEUE_FULL end.
Definition no_resp (x : nid * N * bool * N * N) : Prop := False.

Lemma fires_on_leader_changed : fires_only is_leader_changed no_resp on_leader_changed.
Proof.
  intros s. unfold on_leader_changed.
  assert (G : forall (l : list (N * cbref)) s0, let s1 := fold_left (fun s kv => fire (snd kv) 0 LEADER_CHANGED s) l s0 in
              exists F, fired (outs s1) = fired (outs s0) ++ F /\ Forall is_leader_changed F /\
                        aresps (outs s1) = aresps (outs s0)).
  { induction l as [|kv l IH]; intros s0; cbn zeta; cbn [fold_left].
    - exists []. rewrite app_nil_r. auto.
    - destruct (IH (fire (snd kv) 0 LEADER_CHANGED s0)) as (F & A & B & C). cbn zeta in A, C.
      rewrite A, C, fire_outs, fired_app, aresps_app.
      destruct (snd kv) as [|id|rn rid]; cbn [fire_out]; rewrite ?app_nil_r.
      + exists F. auto.
      + exists ((id, 0, LEADER_CHANGED) :: F). rewrite fired_one_fired, <- app_assoc.
        split; auto. split; auto. constructor; auto. split; reflexivity.
      + exists F. auto. }
  destruct (G (wait_reply (nd s)) s) as (F & A & B & C). cbn zeta in A, C.
  exists F, []. rewrite app_nil_r. cbn [upd outs]. auto.
Qed.

Lemma fires_submit : forall e c cbk, fires_only is_queue_full resp_ok (submit e c cbk).
Proof.
  intros e c cbk s. destruct (submit_spec e c cbk s) as [(_ & _ & F & A)|(_ & _ & F & A & _)]; cbn zeta in *.
  - destruct A as [A|(rn & rid & -> & A)].
    + exists (match cbk with CbLocal id => [(id, 0, QUEUE_FULL)] | _ => [] end), [].
      split; [exact F|]. split; [|rewrite app_nil_r; auto].
      destruct cbk; constructor; auto. split; reflexivity.
    + exists [], [(rn, rid, false, QUEUE_FULL, 0)]. split; [exact F|]. split; [constructor|]. split; [exact A|].
      constructor; auto. cbn. auto.
  - exists [], []. rewrite !app_nil_r. auto.
Qed.

Lemma fires_check_one : forall e c cbk, fires_only is_local_err resp_ok (check_one e c cbk).
Proof.
  intros e c cbk s. destruct (check_one_spec e c cbk s) as (_ & _ & F & R & HF & HR & H). cbn zeta in *.
  exists F, R. split; auto. split; [|split; auto].
  - destruct H as [(_ & _ & -> & _)|(_ & _ & [(_ & _ & -> & _)|(_ & H)])]; auto.
    destruct cbk as [|id|rn rid].
    + destruct H as [-> _]. auto.
    + destruct H as (err & -> & _ & E). constructor; auto. split; auto.
    + destruct H as (err & -> & _). auto.
  - destruct H as [(_ & _ & _ & _ & H)|(_ & _ & [(_ & _ & _ & -> & _)|(_ & H)])]; auto.
    + destruct cbk as [|id|rn rid].
      * destruct H as [-> _]. auto.
      * destruct H as [-> _]. auto.
      * destruct H as [[->| ->] _]; auto. constructor; auto. cbn. auto.
    + destruct cbk as [|id|rn rid].
      * destruct H as [_ ->]. auto.
      * destruct H as (err & _ & -> & _). auto.
      * destruct H as (err & _ & [->| ->] & E); auto. constructor; auto. cbn. auto.
Qed.

Lemma fires_check_loop : forall fuel e start, fires_only is_local_err resp_ok (check_loop fuel e start).
Proof.
  induction fuel as [|f IH]; intros e start s; cbn [check_loop]. { apply fires_only_id. }
  destruct (tnow s - start <? period (cf e))%Z; [|apply fires_only_id].
  assert (G : exists F R,
     fired (outs (match queue (nd s) with
                  | [] => s
                  | (c, cbk) :: rest =>
                    let s0 := upd (fun n => n <| queue := rest |>) s in
                    let s1 := check_one e c cbk s0 in if ok s1 then check_loop f e start s1 else s1 end))
       = fired (outs s) ++ F /\ Forall is_local_err F /\
     aresps (outs (match queue (nd s) with
                  | [] => s
                  | (c, cbk) :: rest =>
                    let s0 := upd (fun n => n <| queue := rest |>) s in
                    let s1 := check_one e c cbk s0 in if ok s1 then check_loop f e start s1 else s1 end))
       = aresps (outs s) ++ R /\ Forall resp_ok R).
  { destruct (queue (nd s)) as [|[c cbk] rest]; [apply (fires_only_id _ _ s)|]. cbn zeta.
    set (s0 := upd (fun n => n <| queue := rest |>) s).
    change (fired (outs s)) with (fired (outs s0)). change (aresps (outs s)) with (aresps (outs s0)).
    destruct (ok (check_one e c cbk s0)).
    - apply (fires_only_comp _ _ (check_one e c cbk) (check_loop f e start) (fires_check_one e c cbk) (IH e start) s0).
    - apply fires_check_one. }
  destruct (leader (nd s)); auto. destruct (wait_leader (cf e)); auto. apply fires_only_id.
Qed.

Lemma fires_check_commands : forall e, fires_only is_local_err resp_ok (check_commands e).
Proof. intros e s. unfold check_commands. apply fires_check_loop. Qed.

(* load_dump emits only transport notifications *)
Lemma outs_load_dump : forall e clear s,
  fired (outs (load_dump e clear s)) = fired (outs s) /\ aresps (outs (load_dump e clear s)) = aresps (outs s).
Proof.
  intros. unfold load_dump.
  destruct (stored (sr (nd s))) as [[sn|]|]; auto.
  destruct (clear && (eidx (s_e1 sn) <=? applied (nd s))); auto.
  destruct (self_ver (nd s) <? s_ver sn); auto.
  cbv zeta.
  match goal with |- context [update_cluster ?l ?s4] => set (s5 := s4) end.
  match goal with |- context [update_cluster ?l s5] => set (new := l) end.
  assert (C5 : outs s5 = outs s).
  { subst s5. repeat (match goal with |- context [if ?b then _ else _] => destruct b end); reflexivity. }
  clearbody s5 new.
  destruct (dyn (cf e)); [|rewrite C5; auto].
  destruct (view_inv _ _ (view_update_cluster new s5)) as (_ & _ & _ & _ & _ & _ & _ & _ & F & _ & _ & A).
  match goal with |- context [if ?b then apply_membership _ _ _ else _] => destruct b end.
  - match goal with |- context [apply_membership false ?es ?u] =>
      destruct (view_inv _ _ (view_apply_membership false es u)) as (_ & _ & _ & _ & _ & _ & _ & _ & F2 & _ & _ & A2) end.
    rewrite F2, A2, F, A, C5. auto.
  - rewrite F, A, C5. auto.
Qed.

Lemma fires_load_dump : forall P Q e clear, fires_only P Q (load_dump e clear).
Proof.
  intros P Q e clear s. destruct (outs_load_dump e clear s) as [F A].
  exists [], []. rewrite !app_nil_r. auto.
Qed.

Lemma fires_tick_load : forall P Q e, fires_only P Q (tick_load e).
Proof.
  intros P Q e s. unfold tick_load.
  destruct (need_load (nd s) && file_dump (cf e)).
  - change (outs (upd (fun n => n <| need_load := false |>) (load_dump e false s))) with (outs (load_dump e false s)).
    apply fires_load_dump.
  - apply (fires_only_id P Q s).
Qed.

Lemma fires_tick_election : forall e, fires_only is_leader_changed no_resp (tick_election e).
Proof.
  intros e s. unfold tick_election.
  destruct (self (nd s)) as [me|]; [|apply fires_only_id].
  destruct (((role (nd s) =? FOLLOWER) || (role (nd s) =? CANDIDATE)) &&
            (deadline (nd s) <? tnow s)%Z && connected_to_anyone (nd s)); [|apply fires_only_id].
  set (s1 := upd (fun n => n <| deadline := (tnow s + gen_timeout e)%Z |> <| leader := None |>) s).
  set (s2 := set_role CANDIDATE s1).
  set (s3 := upd (fun n => n <| term := term n + 1 |> <| voted := Some me |> <| votes := 1 |>) s2).
  assert (V3 : view_of s3 = view_of s).
  { unfold s3, s2, s1. rewrite view_upd by reflexivity. rewrite view_set_role. now rewrite view_upd by reflexivity. }
  set (s4 := fold_left (fun s x => send x (RequestVote (term (nd s3)) (last_idx (log (nd s3))) (last_term (log (nd s3)))) s)
                       (others (nd s3)) s3).
  assert (V4 : view_of s4 = view_of s).
  { unfold s4. rewrite view_fold; auto. intros. now apply view_send. }
  apply view_inv in V4 as (_ & _ & _ & _ & _ & _ & _ & _ & F4 & _ & _ & A4).
  rewrite <- F4, <- A4.
  destruct (majority (votes (nd (on_leader_changed s4))) (nd (on_leader_changed s4))).
  - apply (fires_only_comp _ _ on_leader_changed (become_leader e) fires_on_leader_changed
             (fires_only_sview _ _ _ (sview_become_leader e)) s4).
  - apply fires_on_leader_changed.
Qed.

(* ---- the tick, split at the apply phase ---- *)
Definition tick_pre (e : env) : S -> S := tick_load e ;; tick_timer e ;; tick_election e ;; tick_leader e.
Definition tick_post (e : env) (need : bool) : S -> S :=
  tick_send e need ;; tick_ready ;; check_commands e ;; try_compact e.

Lemma andthen_assoc : forall f g h s, ((f ;; g) ;; h) s = (f ;; (g ;; h)) s.
Proof.
  intros. unfold andthen. destruct (ok (f s)) eqn:E1; auto. rewrite E1. reflexivity.
Qed.

Lemma on_tick_split : forall e n,
  on_tick e n =
  let s0 := tick_pre e (start_S e n) in
  if ok s0 then
    let s1 := fst (apply_entries e s0) in
    if ok s1 then tick_post e (snd (apply_entries e s0)) s1 else s1
  else s0.
Proof.
  intros. unfold on_tick, tick_pre. cbn zeta.
  set (rest := fun s => let (s0, need) := apply_entries e s in if ok s0 then _ else s0).
  rewrite <- !andthen_assoc.
  change ((((tick_load e;; tick_timer e);; tick_election e);; tick_leader e);; rest)
    with (andthen (((tick_load e;; tick_timer e);; tick_election e);; tick_leader e) rest).
  unfold andthen at 1.
  assert (E : (((tick_load e;; tick_timer e);; tick_election e);; tick_leader e) (start_S e n)
            = (tick_load e;; tick_timer e;; tick_election e;; tick_leader e) (start_S e n)).
  { now rewrite !andthen_assoc. }
  rewrite E. destruct (ok _); auto.
  unfold rest. destruct (apply_entries e _) as [s1 need]. reflexivity.
Qed.

Lemma fires_tick_pre : forall e, fires_only is_leader_changed no_resp (tick_pre e).
Proof.
  intros e. unfold tick_pre. repeat apply fires_only_andthen.
  - apply fires_tick_load.
  - apply fires_only_view. intros s. apply view_tick_timer.
  - apply fires_tick_election.
  - apply fires_only_view. intros s. apply view_tick_leader.
Qed.

Lemma fires_tick_post : forall e need, fires_only is_local_err resp_ok (tick_post e need).
Proof.
  intros e need. unfold tick_post. repeat apply fires_only_andthen.
  - apply fires_only_view. intros s. apply view_tick_send.
  - apply fires_only_view. intros s. apply view_tick_ready.
  - apply fires_check_commands.
  - apply fires_only_sview. intros s. apply sview_try_compact.
Qed.

(* ---- the apply phase sends no apply_command_response ---- *)
Lemma aresps_flat_sub_out : forall en r subs, aresps (flat_map (sub_out en r) subs) = [].
Proof.
  induction subs as [|tc subs IH]; auto.
  cbn [flat_map]. rewrite aresps_app, IH, app_nil_r.
  unfold sub_out, fire_out. destruct (fst tc =? eterm en), (snd tc); reflexivity.
Qed.

Lemma aresps_do_apply : forall c s, aresps (outs (fst (do_apply c s))) = aresps (outs s).
Proof.
  intros. unfold do_apply.
  destruct (ck c =? 3).
  - destruct (self_ver (nd s) <? ca c); reflexivity.
  - destruct (membership_of c) as [[a x]|].
    + destruct (applied (nd s) <? replay_idx (nd s)); cbn [fst]; auto.
      now destruct (view_inv _ _ (view_do_change_cluster a x false s)) as (_ & _ & _ & _ & _ & _ & _ & _ & _ & _ & _ & A).
    + destruct (ck c =? 0); auto. destruct (cb c =? 1); reflexivity.
Qed.

Lemma aresps_apply_one : forall en s, aresps (outs (fst (apply_one en s))) = aresps (outs s).
Proof.
  intros. rewrite apply_one_unfold. cbn zeta.
  pose proof (aresps_do_apply (ecmd en) (pop_wc (eidx en) s)) as A.
  change (outs (pop_wc (eidx en) s)) with (outs s) in A.
  destruct (snd (do_apply (ecmd en) (pop_wc (eidx en) s))); cbn [fst]; auto;
  match goal with |- aresps (outs (upd _ ?X)) = _ => change (aresps (outs X) = aresps (outs s)) end;
  match goal with |- context [sub_loop en ?r ?l ?s1] =>
    destruct (sub_loop_spec en r l s1) as (_ & _ & _ & _ & _ & _ & L7) end;
  now rewrite L7, aresps_app, aresps_flat_sub_out, app_nil_r.
Qed.

Lemma aresps_apply_list : forall es s, aresps (outs (apply_list es s)) = aresps (outs s).
Proof.
  induction es as [|en r IH]; intros s; auto.
  rewrite apply_list_cons. destruct (snd (apply_one en s)).
  - rewrite IH. apply aresps_apply_one.
  - apply aresps_apply_one.
Qed.

(* the entries apply_entries executes, and what it tells the subscribers *)
Definition applied_in_tick (s : S) : list entry :=
  if applied (nd s) <? commit (nd s) then
    runnable (self_ver (nd s))
      (get_entries (log (nd s)) (Some (applied (nd s) + 1)) (Some (commit (nd s) - applied (nd s))) None)
  else [].

Lemma apply_entries_outs : forall e s,
  fired (outs (fst (apply_entries e s))) =
    fired (outs s) ++ fired_list (hist (nd s)) (wait_commit (nd s)) (applied_in_tick s) /\
  aresps (outs (fst (apply_entries e s))) = aresps (outs s).
Proof.
  intros. unfold apply_entries, applied_in_tick.
  destruct (applied (nd s) <? commit (nd s)); cbn [fst].
  - split; [|apply aresps_apply_list].
    now destruct (apply_list_spec (get_entries (log (nd s)) (Some (applied (nd s) + 1))
                                   (Some (commit (nd s) - applied (nd s))) None) s)
      as (_ & _ & _ & _ & _ & _ & _ & _ & _ & H).
  - cbn. now rewrite app_nil_r.
Qed.

(* ------------------------------------------------------------------ *)
(* C02_success_local, tick                                              *)
(* ------------------------------------------------------------------ *)

(* A tick fires three groups of callbacks, in this order:
   F0: LEADER_CHANGED for forwarded requests (election timeout);
   the apply phase: for each executed entry, one outcome per local subscriber of its index:
       SUCCESS with the result do_apply computes at that moment iff the recorded term is the
       entry's term, DISCARDED otherwise;
   F2: REQUEST_DENIED / MISSING_LEADER for commands just dequeued (never appended).
   Every apply_command_response sent is a success reply or carries a refusal code. *)
Theorem tick_outcomes : forall e n,
  let s0 := tick_pre e (start_S e n) in
  exists F0,
    fired (outs s0) = F0 /\ Forall is_leader_changed F0 /\ aresps (outs s0) = [] /\
    (ok s0 = false -> on_tick e n = s0) /\
    (ok s0 = true ->
     exists F2, fired (outs (on_tick e n)) =
                F0 ++ fired_list (hist (nd s0)) (wait_commit (nd s0)) (applied_in_tick s0) ++ F2 /\
                Forall is_local_err F2 /\ Forall resp_ok (aresps (outs (on_tick e n)))).
Proof.
  intros e n. cbn zeta.
  destruct (fires_tick_pre e (start_S e n)) as (F0 & R0 & A0 & B0 & C0 & D0).
  change (fired (outs (start_S e n))) with (@nil (N * N * N)) in A0.
  change (aresps (outs (start_S e n))) with (@nil (nid * N * bool * N * N)) in C0.
  cbn [app] in A0, C0.
  assert (R0 = []) as -> by (destruct R0 as [|x R0]; auto; inversion D0 as [|? ? X]; destruct X).
  exists F0. split; auto. split; auto. split; auto.
  rewrite on_tick_split. cbn zeta. split.
  - intros ->. reflexivity.
  - intros ->.
    destruct (apply_entries_outs e (tick_pre e (start_S e n))) as [F1 A1].
    rewrite A0, C0 in *.
    destruct (ok (fst (apply_entries e (tick_pre e (start_S e n))))).
    + destruct (fires_tick_post e (snd (apply_entries e (tick_pre e (start_S e n))))
                                 (fst (apply_entries e (tick_pre e (start_S e n)))))
        as (F2 & R2 & A2 & B2 & C2 & D2).
      exists F2. rewrite A2, F1, C2, A1, <- app_assoc. cbn [app]. auto.
    + exists []. rewrite F1, A1, app_nil_r. auto.
Qed.

Definition log_idx_distinct (es : list entry) : Prop := NoDup (map eidx es).

(* each outcome of the apply phase belongs to one executed entry and one subscription *)
Theorem apply_outcome_origin : forall (s : S) id r err,
  log_idx_distinct (applied_in_tick s) ->
  In (id, r, err) (fired_list (hist (nd s)) (wait_commit (nd s)) (applied_in_tick s)) ->
  exists pre en post t,
    applied_in_tick s = pre ++ en :: post /\
    In (t, id) (local_subs (subs_of (eidx en) (wait_commit (nd s)))) /\
    ((err = SUCCESS /\ t = eterm en /\ r = result_of (hist (nd s) ++ replay pre) (ecmd en)) \/
     (err = DISCARDED /\ t <> eterm en /\ r = 0)).
Proof.
  intros s id r err ND I.
  rewrite (fired_list_ext _ _ _ (wait_commit (nd s)) ND) in I by auto.
  now apply fired_run_in.
Qed.

(* ------------------------------------------------------------------ *)
(* messages and API calls                                               *)
(* ------------------------------------------------------------------ *)
Lemma fires_on_append_entries : forall e from m t c,
  fires_only is_leader_changed no_resp (on_append_entries e from m t c).
Proof.
  intros e from m t c s. unfold on_append_entries.
  destruct (t <? term (nd s)); [apply fires_only_id|].
  set (s1 := upd (fun n => n <| deadline := (tnow s + gen_timeout e)%Z |>) s).
  set (s2 := if opt_eqb (leader (nd s1)) (Some from) then s1 else on_leader_changed s1).
  assert (P2 : exists F R, fired (outs s2) = fired (outs s) ++ F /\ Forall is_leader_changed F /\
                           aresps (outs s2) = aresps (outs s) ++ R /\ Forall no_resp R).
  { unfold s2. destruct (opt_eqb (leader (nd s1)) (Some from)).
    - apply (fires_only_id _ _ s).
    - apply (fires_on_leader_changed s1). }
  destruct P2 as (F & R & A & B & C & D).
  set (s3 := upd (fun n => n <| leader := Some from |>) s2).
  set (s4 := if term (nd s3) <? t then upd (fun n => n <| term := t |> <| voted := None |>) s3 else s3).
  set (s5 := set_role FOLLOWER s4).
  set (s6 := upd (fun n => n <| leader_commit := Some c |>) s5).
  assert (V6 : view_of s6 = view_of s2).
  { unfold s6, s5, s4, s3. rewrite view_upd by reflexivity. rewrite view_set_role.
    destruct (term (nd (upd (fun n => n <| leader := Some from |>) s2)) <? t); auto. }
  apply view_inv in V6 as (_ & _ & _ & _ & _ & _ & _ & _ & F6 & _ & _ & A6).
  rewrite <- F6 in A. rewrite <- A6 in C. clearbody s6. clear s5 s4 s3 F6 A6.
  assert (K : forall s7, fired (outs s7) = fired (outs s6) -> aresps (outs s7) = aresps (outs s6) ->
              exists F R, fired (outs s7) = fired (outs s) ++ F /\ Forall is_leader_changed F /\
                          aresps (outs s7) = aresps (outs s) ++ R /\ Forall no_resp R).
  { intros s7 H1 H2. exists F, R. rewrite H1, H2. auto. }
  assert (KV : forall s7, view_of s7 = view_of s6 ->
              exists F R, fired (outs s7) = fired (outs s) ++ F /\ Forall is_leader_changed F /\
                          aresps (outs s7) = aresps (outs s) ++ R /\ Forall no_resp R).
  { intros s7 V. apply view_inv in V as (_ & _ & _ & _ & _ & _ & _ & _ & F7 & _ & _ & A7). now apply K. }
  assert (KS : forall s7, sview_of s7 = sview_of s6 ->
              exists F R, fired (outs s7) = fired (outs s) ++ F /\ Forall is_leader_changed F /\
                          aresps (outs s7) = aresps (outs s) ++ R /\ Forall no_resp R).
  { intros s7 V. apply sview_inv in V as (_ & _ & _ & _ & _ & _ & _ & _ & F7 & A7). now apply K. }
  destruct m as [| |tt cc prev es|tt cc prev lab off len en|tt cc p| | |]; try (apply K; reflexivity).
  - apply KS, sview_ae_regular.
  - destruct (lab =? 1).
    + apply KV. rewrite view_send_next_idx. reflexivity.
    + destruct (recv_t (nd s6)) eqn:RT; [apply K; reflexivity|].
      destruct (lab =? 2).
      * apply KV. rewrite view_send_next_idx. reflexivity.
      * destruct (assemble_entry _); [|apply K; reflexivity].
        apply KS. rewrite sview_ae_regular. reflexivity.
  - destruct (set_transmission p s6) as [s7 done] eqn:ST.
    assert (C7 : sview_of s7 = sview_of s6).
    { change s7 with (fst (s7, done)). rewrite <- ST. apply sview_set_transmission. }
    apply sview_inv in C7 as (_ & _ & _ & _ & _ & _ & _ & _ & F7 & A7).
    destruct (done && load_dump_ok s7).
    + destruct (outs_load_dump e true s7) as [LF LA].
      apply K.
      * cbv zeta.
        match goal with |- context [ae_commit c ?v (send_next_idx from ?nx false true ?L)] =>
          destruct (view_inv _ _ (view_ae_commit c v (send_next_idx from nx false true L)))
            as (_ & _ & _ & _ & _ & _ & _ & _ & X & _);
          destruct (view_inv _ _ (view_send_next_idx from nx false true L))
            as (_ & _ & _ & _ & _ & _ & _ & _ & Y & _) end.
        now rewrite X, Y, LF.
      * cbv zeta.
        match goal with |- context [ae_commit c ?v (send_next_idx from ?nx false true ?L)] =>
          destruct (view_inv _ _ (view_ae_commit c v (send_next_idx from nx false true L)))
            as (_ & _ & _ & _ & _ & _ & _ & _ & _ & _ & _ & X);
          destruct (view_inv _ _ (view_send_next_idx from nx false true L))
            as (_ & _ & _ & _ & _ & _ & _ & _ & _ & _ & _ & Y) end.
        now rewrite X, Y, LA.
    + destruct done.
      * destruct (outs_load_dump e true s7) as [LF LA]. apply K.
        -- destruct (view_inv _ _ (view_ae_commit c None (load_dump e true s7))) as (_ & _ & _ & _ & _ & _ & _ & _ & X & _).
           now rewrite X, LF.
        -- destruct (view_inv _ _ (view_ae_commit c None (load_dump e true s7))) as (_ & _ & _ & _ & _ & _ & _ & _ & _ & _ & _ & X).
           now rewrite X, LA.
      * apply K.
        -- destruct (view_inv _ _ (view_ae_commit c None s7)) as (_ & _ & _ & _ & _ & _ & _ & _ & X & _). now rewrite X.
        -- destruct (view_inv _ _ (view_ae_commit c None s7)) as (_ & _ & _ & _ & _ & _ & _ & _ & _ & _ & _ & X). now rewrite X.
Qed.

(* what a delivered message can make the node fire: LEADER_CHANGED (a new leader shows up, or the
   leader's positive answer to a forwarded command arrives after its index has been applied here:
   a late answer), or the error code an apply_command_response carries *)
Definition from_message (m : msg) (x : N * N * N) : Prop :=
  is_leader_changed x \/ exists req a b, m = ApplyResp req false a b /\ snd (fst x) = 0 /\ snd x = a.

Theorem message_outcomes : forall e from m n,
  Forall (from_message m) (fired (outs (on_message e from m n))) /\
  Forall resp_ok (aresps (outs (on_message e from m n))).
Proof.
  intros e from m n.
  assert (K : forall s7, view_of s7 = view_of (start_S e n) ->
              Forall (from_message m) (fired (outs s7)) /\ Forall resp_ok (aresps (outs s7))).
  { intros s7 V. apply view_inv in V as (_ & _ & _ & _ & _ & _ & _ & _ & F7 & _ & _ & A7).
    rewrite F7, A7. split; constructor. }
  assert (AE_ : forall t c, Forall (from_message m) (fired (outs (on_append_entries e from m t c (start_S e n)))) /\
                            Forall resp_ok (aresps (outs (on_append_entries e from m t c (start_S e n))))).
  { intros t c. destruct (fires_on_append_entries e from m t c (start_S e n)) as (F & R & A & B & C & D).
    rewrite A, C. cbn [app]. split.
    - eapply Forall_impl; [|exact B]. intros x H. now left.
    - eapply Forall_impl; [|exact D]. intros x []. }
  unfold on_message.
  destruct m as [t lli llt|t|t c prev es|t c prev lab off len en|t c p|c req|req okr a b|t next reset success];
    try apply AE_.
  - destruct (self (nd (start_S e n))); [|apply K; reflexivity].
    match goal with |- context [if term (nd (start_S e n)) <? t then ?A else ?B] =>
      set (s1 := if term (nd (start_S e n)) <? t then A else B) end.
    assert (V1 : view_of s1 = view_of (start_S e n)).
    { unfold s1. destruct (term (nd (start_S e n)) <? t); auto.
      rewrite view_upd by reflexivity. rewrite view_set_role. reflexivity. }
    destruct ((role (nd s1) =? FOLLOWER) || (role (nd s1) =? CANDIDATE)); [|now apply K].
    destruct (term (nd s1) <=? t); [|now apply K].
    destruct (llt <? last_term (log (nd s1))); [now apply K|].
    destruct ((llt =? last_term (log (nd s1))) && (lli <? last_idx (log (nd s1)))); [now apply K|].
    destruct (voted (nd s1)); [now apply K|].
    apply K. rewrite view_send by reflexivity. rewrite view_upd by reflexivity. exact V1.
  - destruct ((role (nd (start_S e n)) =? CANDIDATE) && (t =? term (nd (start_S e n)))); [|apply K; reflexivity].
    match goal with |- context [if ?b then _ else _] => destruct b end; [|apply K; reflexivity].
    destruct (sview_inv _ _ (sview_become_leader e (upd (fun n0 => n0 <| votes := votes n0 + 1 |>) (start_S e n))))
      as (_ & _ & _ & _ & _ & _ & _ & _ & F7 & A7).
    rewrite F7, A7. split; constructor.
  - destruct (fires_submit e c (match req with Some r => CbRemote from r | None => CbNone end) (start_S e n))
      as (F & R & A & B & C & D).
    rewrite A, C. cbn [app]. split; auto.
    destruct (submit_spec e c (match req with Some r => CbRemote from r | None => CbNone end) (start_S e n))
      as [(_ & _ & F' & _)|(_ & _ & F' & _)]; cbn zeta in F'; rewrite A in F'; cbn [app] in F'; rewrite F'.
    + destruct req; constructor.
    + constructor.
  - destruct (apply_resp_spec e from req okr a b n) as (_ & _ & _ & A & H). cbn zeta in *.
    unfold on_message in A, H. rewrite A. split; [|constructor].
    destruct (aget req (wait_reply n)) as [cbk|].
    + destruct H as [_ H]. destruct okr.
      * destruct (a <=? applied n).
        -- destruct H as [_ ->]. destruct cbk as [|id|rn rid]; constructor; auto.
           left. split; reflexivity.
        -- destruct H as [-> _]. constructor.
      * destruct H as [_ ->]. destruct cbk as [|id|rn rid]; constructor; auto.
        right. exists req, a, b. auto.
    + destruct H as [_ ->]. constructor.
  - destruct ((role (nd (start_S e n)) =? LEADER) && (t =? term (nd (start_S e n)))); [|apply K; reflexivity].
    match goal with |- context [ok ?X] => set (s2 := X) end.
    assert (C2 : outs s2 = outs (start_S e n)).
    { unfold s2. destruct reset, success; auto;
        match goal with |- context [aget from ?l] => destruct (aget from l) as [m0|] end; auto;
        destruct (m0 <? next - 1); auto. }
    destruct (ok s2);
      [match goal with |- context [outs (upd ?f s2)] => change (outs (upd f s2)) with (outs s2) end|];
      rewrite C2; split; constructor.
Qed.

Theorem api_outcomes : forall (api : env -> cmd -> cbref -> node -> S) e c cbk n,
  (api = api_submit \/ api = api_admin \/ api = api_setver) ->
  Forall is_queue_full (fired (outs (api e c cbk n))) /\ Forall resp_ok (aresps (outs (api e c cbk n))).
Proof.
  intros api e c cbk n H.
  assert (SB : Forall is_queue_full (fired (outs (submit e c cbk (start_S e n)))) /\
               Forall resp_ok (aresps (outs (submit e c cbk (start_S e n))))).
  { destruct (fires_submit e c cbk (start_S e n)) as (F & R & A & B & C & D). rewrite A, C. auto. }
  assert (RS : Forall is_queue_full (fired (outs (raise EXC_GENERIC (start_S e n)))) /\
               Forall resp_ok (aresps (outs (raise EXC_GENERIC (start_S e n))))) by (split; constructor).
  destruct H as [->|[->| ->]].
  - exact SB.
  - unfold api_admin. destruct (dyn (cf e)); auto.
  - unfold api_setver. destruct ((self_ver n <? ca c) || (ca c <? enabled_ver n)); auto.
Qed.

(* ------------------------------------------------------------------ *)
(* channels only carry refusal codes in negative replies                *)
(* ------------------------------------------------------------------ *)
Definition msg_ok (m : msg) : Prop :=
  match m with ApplyResp _ false a _ => err_remote a \/ a = QUEUE_FULL | _ => True end.

Definition chans_ok (g : gstate) : Prop := forall c, In c (chan g) -> Forall msg_ok (snd c).
Definition sends_ok (os : list out) : Prop := forall d m, In (Send d m) os -> msg_ok m.

Lemma aresps_cons : forall o os, aresps (o :: os) = aresps [o] ++ aresps os.
Proof. intros. change (o :: os) with ([o] ++ os). apply aresps_app. Qed.

Lemma aresps_sends_ok : forall os, Forall resp_ok (aresps os) -> sends_ok os.
Proof.
  induction os as [|o os IH]; intros H d m I; [destruct I|].
  rewrite aresps_cons in H. apply Forall_app in H as [H1 H2].
  destruct I as [->|I]; [|eapply IH; eauto].
  destruct m as [| | | | | |q k a b|]; cbn; auto. destruct k; auto.
  change (aresps [Send d (ApplyResp q false a b)]) with [(d, q, false, a, b)] in H1.
  inversion H1 as [|? ? X]; subst. cbn in X. destruct X as [X|X]; [discriminate|exact X].
Qed.

Lemma chan_get_ok : forall a b g, chans_ok g -> Forall msg_ok (chan_get a b g).
Proof.
  intros a b g H. unfold chan_get.
  match goal with |- context [find ?f (chan g)] => destruct (find f (chan g)) as [c|] eqn:F end; [|constructor].
  apply find_some in F as [I _]. now apply H.
Qed.

Lemma chan_set_ok : forall a b q g, chans_ok g -> Forall msg_ok q -> chans_ok (chan_set a b q g).
Proof.
  intros a b q g H Q c I. unfold chan_set in I. cbn in I. destruct I as [<-|I]; auto.
  apply filter_In in I as [I _]. now apply H.
Qed.

Lemma route_ok : forall a os g, chans_ok g -> sends_ok os -> chans_ok (route a os g).
Proof.
  intros a os. unfold route. induction os as [|o os IH]; intros g H S; cbn [fold_left]; auto.
  apply IH.
  - destruct o as [d m| | | |x]; auto.
    + apply chan_set_ok; auto. apply Forall_app. split. * now apply chan_get_ok.
      * constructor; auto. apply (S d m). now left.
    + apply chan_set_ok; auto.
  - intros d m I. apply (S d m). now right.
Qed.

Lemma finish_ok : forall n s g, chans_ok g -> sends_ok (outs s) -> chans_ok (finish n s g).
Proof. intros. unfold finish. apply route_ok; auto. Qed.

Lemma tick_sends_ok : forall e n, Forall resp_ok (aresps (outs (on_tick e n))).
Proof.
  intros e n. destruct (tick_outcomes e n) as (F0 & _ & _ & A & H1 & H2). cbn zeta in *.
  destruct (ok (tick_pre e (start_S e n))) eqn:O.
  - destruct (H2 eq_refl) as (F2 & _ & _ & R). exact R.
  - rewrite (H1 eq_refl), A. constructor.
Qed.

Lemma filter_chans_ok : forall g f, chans_ok g -> forall c, In c (filter f (chan g)) -> Forall msg_ok (snd c).
Proof. intros g f H c I. apply filter_In in I as [I _]. now apply H. Qed.

Lemma Forall_firstn : forall {A} (P : A -> Prop) k l, Forall P l -> Forall P (firstn k l).
Proof.
  induction k as [|k IH]; intros l H; cbn; [constructor|].
  destruct H; constructor; auto.
Qed.

Lemma gstep_chans_ok : forall c g ev g' o, chans_ok g -> gstep c g ev = Some (g', o) -> chans_ok g'.
Proof.
  intros c g ev g' o H ST.
  destruct ev as [n now rnd bud ord sl|a b now rnd ord|a b|a b k|a b|n cm cb|n cm cb|n cm cb|n|n|n oth now rnd sv];
    cbn [gstep] in ST.
  - destruct (aget n (nodes g)); [|discriminate]. injection ST as <- <-.
    apply finish_ok; auto. apply aresps_sends_ok, tick_sends_ok.
  - destruct (aget b (nodes g)); [|discriminate].
    destruct (chan_get a b g) as [|m rest] eqn:CG; [discriminate|]. injection ST as <- <-.
    pose proof (chan_get_ok a b g H) as CK. rewrite CG in CK. inversion CK; subst.
    apply finish_ok. + apply chan_set_ok; auto.
    + apply aresps_sends_ok. apply message_outcomes.
  - destruct (aget a (nodes g)); [|discriminate]. injection ST as <- <-.
    apply chan_set_ok; [|constructor]. apply finish_ok; auto. intros d m [].
  - injection ST as <- <-. apply chan_set_ok; auto. apply Forall_firstn. now apply chan_get_ok.
  - destruct (aget a (nodes g)); [|discriminate]. injection ST as <- <-.
    apply finish_ok; [|intros d m []].
    destruct (match aget b (nodes g) with Some y => negb (smem a (tconn y)) | None => true end); auto.
    apply chan_set_ok; [|constructor]. apply chan_set_ok; [|constructor]. auto.
  - destruct (aget n (nodes g)); [|discriminate]. injection ST as <- <-.
    apply finish_ok; auto. apply aresps_sends_ok. apply (api_outcomes api_submit). auto.
  - destruct (aget n (nodes g)); [|discriminate]. injection ST as <- <-.
    apply finish_ok; auto. apply aresps_sends_ok. apply (api_outcomes api_admin). auto.
  - destruct (aget n (nodes g)); [|discriminate]. injection ST as <- <-.
    apply finish_ok; auto. apply aresps_sends_ok. apply (api_outcomes api_setver). auto.
  - destruct (aget n (nodes g)); [|discriminate]. injection ST as <- <-.
    apply finish_ok; auto. intros d m [].
  - injection ST as <- <-. intros x I. cbn in I. apply filter_In in I as [I _].
    destruct (aget n (nodes g)) as [x0|]; [destruct (disk_of c x0)|]; cbn in I; now apply H.
  - injection ST as <- <-. intros x I. cbn in I. apply filter_In in I as [I _]. now apply H.
Qed.

Lemma run_chans_ok : forall c evs g g', chans_ok g -> run_trace c g evs = Some g' -> chans_ok g'.
Proof.
  induction evs as [|ev r IH]; intros g g' H R; cbn in R.
  - now injection R as <-.
  - destruct (gstep c g ev) as [[g1 o]|] eqn:ST; [|discriminate].
    eapply IH; [|exact R]. eapply gstep_chans_ok; eauto.
Qed.

Lemma chans_ok_init : chans_ok ginit.
Proof. intros c []. Qed.

(* ------------------------------------------------------------------ *)
(* C02_success_local: in every step of every run, SUCCESS and DISCARDED  *)
(* come out of the apply phase of a tick and of nowhere else            *)
(* ------------------------------------------------------------------ *)
Definition not_final (x : N * N * N) : Prop := snd x <> SUCCESS /\ snd x <> DISCARDED.

Lemma err_remote_not_final : forall id a, err_remote a \/ a = QUEUE_FULL -> not_final (id, 0, a).
Proof.
  intros id a H. unfold not_final, err_remote in *. cbn.
  destruct H as [[->|[->| ->]]| ->]; split; discriminate.
Qed.

Definition step_outcomes_ok (c : conf) (g : gstate) (ev : event) (o : option (nid * S)) : Prop :=
  match o with
  | None => True
  | Some (_, s) =>
    match ev with
    | ETick n now rnd bud ord sl =>
      exists x, aget n (nodes g) = Some x /\
        let e := mk_env c now rnd bud ord sl in
        let s0 := tick_pre e (start_S e x) in
        exists F0 F2,
          fired (outs s) = F0 ++ (if ok s0 then fired_list (hist (nd s0)) (wait_commit (nd s0)) (applied_in_tick s0) else []) ++ F2 /\
          Forall not_final F0 /\ Forall not_final F2
    | _ => Forall not_final (fired (outs s))
    end
  end.

Theorem success_local_step : forall c g ev g' o,
  chans_ok g -> gstep c g ev = Some (g', o) -> step_outcomes_ok c g ev o.
Proof.
  intros c g ev g' o H ST.
  destruct ev as [n now rnd bud ord sl|a b now rnd ord|a b|a b k|a b|n cm cb|n cm cb|n cm cb|n|n|n oth now rnd sv];
    cbn [gstep] in ST.
  - destruct (aget n (nodes g)) as [x|] eqn:G; [|discriminate]. injection ST as <- <-.
    cbn [step_outcomes_ok]. exists x. split; auto. cbn zeta.
    destruct (tick_outcomes (mk_env c now rnd bud ord sl) x) as (F0 & A & B & _ & H1 & H2). cbn zeta in *.
    assert (B' : Forall not_final F0).
    { eapply Forall_impl; [|exact B]. intros [[id r] err] [_ E]. cbn in E. subst. split; discriminate. }
    destruct (ok (tick_pre _ (start_S _ x))) eqn:O.
    + destruct (H2 eq_refl) as (F2 & E & L & _). exists F0, F2. split; auto. split; auto.
      eapply Forall_impl; [|exact L]. intros [[id r] err] [_ E2]. cbn in E2.
      destruct E2 as [->| ->]; split; discriminate.
    + exists F0, []. rewrite (H1 eq_refl), A. cbn [app]. rewrite app_nil_r. auto.
  - destruct (aget b (nodes g)) as [x|]; [|discriminate].
    destruct (chan_get a b g) as [|m rest] eqn:CG; [discriminate|]. injection ST as <- <-.
    pose proof (chan_get_ok a b g H) as CK. rewrite CG in CK. inversion CK as [|? ? MK _]; subst.
    cbn [step_outcomes_ok].
    destruct (message_outcomes (mk_env c now rnd DEFAULT_BUDGET ord 0) a m x) as [F _].
    eapply Forall_impl; [|exact F]. intros [[id r] err] [[_ E]|(req & a0 & b0 & -> & E1 & E2)]; cbn in *.
    + subst. split; discriminate.
    + subst. now apply err_remote_not_final.
  - destruct (aget a (nodes g)); [|discriminate]. injection ST as <- <-. constructor.
  - injection ST as <- <-. exact I.
  - destruct (aget a (nodes g)); [|discriminate]. injection ST as <- <-. constructor.
  - destruct (aget n (nodes g)) as [x|]; [|discriminate]. injection ST as <- <-. cbn [step_outcomes_ok].
    destruct (api_outcomes api_submit (mk_env c 0 0 DEFAULT_BUDGET [] 0) cm (cb_of cb) x) as [F _]; auto.
    eapply Forall_impl; [|exact F]. intros [[id r] err] [_ E]. cbn in E. subst. split; discriminate.
  - destruct (aget n (nodes g)) as [x|]; [|discriminate]. injection ST as <- <-. cbn [step_outcomes_ok].
    destruct (api_outcomes api_admin (mk_env c 0 0 DEFAULT_BUDGET [] 0) cm (cb_of cb) x) as [F _]; auto.
    eapply Forall_impl; [|exact F]. intros [[id r] err] [_ E]. cbn in E. subst. split; discriminate.
  - destruct (aget n (nodes g)) as [x|]; [|discriminate]. injection ST as <- <-. cbn [step_outcomes_ok].
    destruct (api_outcomes api_setver (mk_env c 0 0 DEFAULT_BUDGET [] 0) cm (cb_of cb) x) as [F _]; auto.
    eapply Forall_impl; [|exact F]. intros [[id r] err] [_ E]. cbn in E. subst. split; discriminate.
  - destruct (aget n (nodes g)); [|discriminate]. injection ST as <- <-. constructor.
  - injection ST as <- <-. exact I.
  - injection ST as <- <-. constructor.
Qed.

Theorem success_local : forall c evs g ev g' o,
  run_trace c ginit evs = Some g -> gstep c g ev = Some (g', o) -> step_outcomes_ok c g ev o.
Proof.
  intros c evs g ev g' o R ST. eapply success_local_step; eauto.
  eapply run_chans_ok; eauto. apply chans_ok_init.
Qed.

(* ------------------------------------------------------------------ *)
(* C02_error_means_never_appended (local)                               *)
(* ------------------------------------------------------------------ *)
Theorem error_means_never_appended :
  (* _applyCommand: QUEUE_FULL leaves the node exactly as it was *)
  (forall e c cbk s id r err,
     In (id, r, err) (fired (outs (submit e c cbk s))) -> ~ In (id, r, err) (fired (outs s)) ->
     cbk = CbLocal id /\ r = 0 /\ err = QUEUE_FULL /\ nd (submit e c cbk s) = nd s) /\
  (forall e c cbk s rn rid a b,
     In (rn, rid, false, a, b) (aresps (outs (submit e c cbk s))) -> ~ In (rn, rid, false, a, b) (aresps (outs s)) ->
     cbk = CbRemote rn rid /\ a = QUEUE_FULL /\ nd (submit e c cbk s) = nd s) /\
  (* _checkCommandsToApply: the command taken from the head of the queue is gone from the queue;
     if the step reports an error for it, locally or to the requesting node, the log, the
     subscriptions and the pending-reply table are as before: it was not appended and cannot
     be applied through this submission *)
  (forall e c cbk rest s,
     queue (nd s) = (c, cbk) :: rest ->
     let s0 := upd (fun n => n <| queue := rest |>) s in
     let s' := check_one e c cbk s0 in
     queue (nd s') = rest /\
     (forall id r err, In (id, r, err) (fired (outs s')) -> ~ In (id, r, err) (fired (outs s)) ->
        cbk = CbLocal id /\ r = 0 /\ err_local err /\
        log (nd s') = log (nd s) /\ wait_commit (nd s') = wait_commit (nd s) /\ wait_reply (nd s') = wait_reply (nd s)) /\
     (forall rn rid a b, In (rn, rid, false, a, b) (aresps (outs s')) -> ~ In (rn, rid, false, a, b) (aresps (outs s)) ->
        cbk = CbRemote rn rid /\ err_remote a /\
        log (nd s') = log (nd s) /\ wait_commit (nd s') = wait_commit (nd s) /\ wait_reply (nd s') = wait_reply (nd s))) /\
  (* apply_command_response with an error on the requesting node: the pending request is
     dropped and the callback gets that error; nothing is appended or subscribed *)
  (forall e from req a b n cbk,
     aget req (wait_reply n) = Some cbk ->
     let s' := on_message e from (ApplyResp req false a b) n in
     fired (outs s') = match cbk with CbLocal id => [(id, 0, a)] | _ => [] end /\
     log (nd s') = log n /\ queue (nd s') = queue n /\ wait_commit (nd s') = wait_commit n /\
     wait_reply (nd s') = adel req (wait_reply n)).
Proof.
  split; [|split; [|split]].
  - intros e c cbk s id r err I NI.
    destruct (submit_spec e c cbk s) as [(_ & N & F & _)|(_ & _ & F & _)]; cbn zeta in *; rewrite F in I.
    + apply in_app_or in I as [I|I]; [contradiction|].
      destruct cbk as [|id'|rn rid]; [destruct I| |destruct I]. destruct I as [E|[]]. injection E as <- <- <-. auto.
    + contradiction.
  - intros e c cbk s rn rid a b I NI.
    destruct (submit_spec e c cbk s) as [(_ & N & _ & A)|(_ & _ & _ & A & _)]; cbn zeta in *.
    + destruct A as [A|(rn' & rid' & -> & A)]; rewrite A in I; [contradiction|].
      apply in_app_or in I as [I|I]; [contradiction|]. destruct I as [E|[]]. injection E as <- <- <- <-. auto.
    + rewrite A in I. contradiction.
  - intros e c cbk rest s Q. cbn zeta.
    set (s0 := upd (fun n => n <| queue := rest |>) s).
    destruct (check_one_spec e c cbk s0) as (Q' & _ & F & R & HF & HR & H). cbn zeta in *.
    change (fired (outs s0)) with (fired (outs s)) in HF. change (aresps (outs s0)) with (aresps (outs s)) in HR.
    change (log (nd s0)) with (log (nd s)) in H. change (wait_commit (nd s0)) with (wait_commit (nd s)) in H.
    change (wait_reply (nd s0)) with (wait_reply (nd s)) in H.
    split; [exact Q'|]. split.
    + intros id r err I NI. rewrite HF in I. apply in_app_or in I as [I|I]; [contradiction|].
      destruct H as [(_ & _ & -> & _)|(L & W & [(_ & _ & -> & _)|(WR & H)])]; try destruct I.
      destruct cbk as [|id'|rn rid].
      * destruct H as [-> _]. destruct I.
      * destruct H as (err' & -> & _ & E). destruct I as [X|[]]. injection X as <- <- <-. auto 10.
      * destruct H as (err' & -> & _). destruct I.
    + intros rn rid a b I NI. rewrite HR in I. apply in_app_or in I as [I|I]; [contradiction|].
      destruct H as [(_ & _ & _ & _ & H)|(L & W & [(_ & _ & _ & -> & _)|(WR & H)])]; try destruct I.
      * destruct cbk as [|id'|rn' rid'].
        -- destruct H as [-> _]. destruct I.
        -- destruct H as [-> _]. destruct I.
        -- destruct H as [[->| ->] _]; [destruct I|]. destruct I as [X|[]]. discriminate.
      * destruct cbk as [|id'|rn' rid'].
        -- destruct H as [_ ->]. destruct I.
        -- destruct H as (err' & _ & -> & _). destruct I.
        -- destruct H as (err' & _ & [->| ->] & E); [destruct I|]. destruct I as [X|[]].
           injection X as <- <- <- <-. auto 10.
  - intros e from req a b n cbk G. cbn zeta.
    destruct (apply_resp_spec e from req false a b n) as (L & Q & _ & _ & H). cbn zeta in *.
    rewrite G in H. destruct H as (WR & WC & F). auto 10.
Qed.

(* full statement that is NOT proved here (needs State-Machine Safety): an entry for which SUCCESS
   was reported stays at its index, on every node that ever applies that index *)
Definition C02_success_stable_full (valid : conf -> list event -> Prop) : Prop :=
  forall c evs1 evs2 g1 g2 x n1 en y n2 en',
    valid c (evs1 ++ evs2) ->
    run_trace c ginit evs1 = Some g1 -> run_trace c g1 evs2 = Some g2 ->
    aget x (nodes g1) = Some n1 -> In en (log n1) -> eidx en <= applied n1 ->
    aget y (nodes g2) = Some n2 -> In en' (log n2) -> eidx en' = eidx en -> eidx en' <= applied n2 ->
    entry_eqb en en' = true.
