(* Lock/ProofsClient.v - C16 on the client wrapper model (Lock/Client.v). *)
From Coq Require Import ZArith List Bool Lia ZifyBool.
From PSO Require Import Lock.Base Lock.Gen Lock.Log Lock.Client Lock.ProofsTable Lock.ProofsExclusion.
Import ListNotations.
Open Scope Z_scope.

(* An acquisition whose result arrives more than autoUnlockTime/2 after the attempt: the caller is
   never told True (documented call modes: sync without callback, async with callback), and when
   the replicated acquire had succeeded the caller is told False and a release of that lock is
   issued. *)
Lemma late_acquire_fails : forall U self p raw acquireTime,
  p_mode p <> MSyncCallback ->
  2 * (acquireTime - p_attempt p) > U ->
  fst (try_complete U self p raw acquireTime) <> TBool true
  /\ (raw = Some true ->
      try_complete U self p raw acquireTime = (TBool false, [Release (p_lock p) self])).
Proof.
  intros U self [L attempt m] raw acquireTime Hm Hlate. cbn [p_mode p_attempt p_lock] in *.
  assert (E : late U attempt acquireTime = true) by (unfold late; lia).
  unfold try_complete. cbn [p_mode p_attempt p_lock]. destruct m; [| | congruence].
  - destruct raw as [[|]|]; simpl; rewrite ?E; simpl; split; try discriminate; intros; try reflexivity; discriminate.
  - destruct raw as [[|]|]; simpl; rewrite ?E; simpl; split; try discriminate; intros; try reflexivity; discriminate.
Qed.

(* non-vacuity, both directions: result after 6 > 10/2 => False + release; after 5 => True, no release *)
Example late_acquire_instance :
  let p := {| p_lock := 7; p_attempt := 100; p_mode := MAsync |} in
  try_complete 10 1 p (Some true) 106 = (TBool false, [Release 7 1])
  /\ try_complete 10 1 p (Some true) 105 = (TBool true, [])
  /\ try_complete 10 1 {| p_lock := 7; p_attempt := 100; p_mode := MSync |} (Some true) 106 = (TBool false, [Release 7 1]).
Proof. vm_compute. repeat split. Qed.

(* the release the late path issues, once applied on a replica, removes the lock there *)
Lemma late_acquire_release_applied : forall U self p acquireTime T now,
  p_mode p <> MSyncCallback ->
  2 * (acquireTime - p_attempt p) > U ->
  forall c, In c (snd (try_complete U self p (Some true) acquireTime)) ->
  client_is_acquired U self (apply_cmd U T c) (p_lock p) now = false.
Proof.
  intros U self p acquireTime T now Hm Hlate c Hin.
  destruct (late_acquire_fails U self p (Some true) acquireTime Hm Hlate) as [_ H].
  rewrite (H eq_refl) in Hin. simpl in Hin. destruct Hin as [Hc | []]. subst c.
  unfold client_is_acquired. apply release_drops_lock.
Qed.

(* quirk: sync=True together with a callback bypasses the late check (the raw result is passed on) *)
Example sync_with_callback_bypasses_late_check :
  try_complete 10 1 {| p_lock := 7; p_attempt := 100; p_mode := MSyncCallback |} (Some true) 109 = (TBool true, []).
Proof. reflexivity. Qed.

(* the prolongation loop skips while less than a quarter of the auto-unlock time has passed *)
Lemma tick_skips_early : forall U self last hasObj hasLeader t1 t2 t3,
  4 * (t1 - last) < U -> tick U self last hasObj hasLeader t1 t2 t3 = (last, []).
Proof.
  intros. unfold tick. assert (E : (4 * (t1 - last) <? U) = true) by lia. rewrite E. reflexivity.
Qed.

Lemma tick_prolongs : forall U self last t1 t2 t3,
  4 * (t1 - last) >= U -> tick U self last true true t1 t2 t3 = (t2, [Prolongate self t3]).
Proof.
  intros. unfold tick. assert (E : (4 * (t1 - last) <? U) = false) by lia. rewrite E. reflexivity.
Qed.

(* Candidate finding (DESIGN "by reading"): the release of the late path is fire-and-forget.  If it
   never reaches the log, the entry written by the late acquire stays, the client's own prolongation
   thread keeps refreshing it, and the client - who was told False - sees isAcquired = True for as
   long as it lives.  U = 10, client 1, lock 7: attempt at 0, result applied at 6 (6 > 10/2). *)
Example lost_release_keeps_lock :
  let U := 10 in
  try_complete U 1 {| p_lock := 7; p_attempt := 0; p_mode := MAsync |} (Some true) 6 = (TBool false, [Release 7 1])
  /\ tick U 1 0 true true 6 6 6 = (6, [Prolongate 1 6])
  /\ tick U 1 6 true true 9 9 9 = (9, [Prolongate 1 9])
  /\ client_is_acquired U 1 (replay U [Acquire 7 1 0]) 7 6 = true
  /\ client_is_acquired U 1 (replay U [Acquire 7 1 0; Prolongate 1 6; Prolongate 1 9]) 7 18 = true
  /\ acquire_ok U (replay U [Acquire 7 1 0; Prolongate 1 6; Prolongate 1 9]) 7 2 19 = false.
Proof. vm_compute. repeat split. Qed.

(* the model-side check functions agree with themselves on a tiny scenario (keeps the case-file
   entry points compiled and exercised even when no case file exists) *)
Example check_client_case_smoke :
  check_client_case 10 [Acquire 7 1 0; Release 7 1]
    [EIssue 1 0 7 MAsync 0; EApply 0; EComplete 1 0 (RAt 0) 6; EApply 1; EProbe 1 2 7 6; EProbe 1 1 7 6;
     ETick 1 true true 6 6 6; ERelease 1 7]
    [[1; 7; 1; 0]; [1]; [2; 3; 7; 1]; [0]; [0]; [1]; [6; 2; 1; 6]; [3; 7; 1]] = None.
Proof. vm_compute. reflexivity. Qed.
