(* Lock/Log.v - the replicated command log of the lock manager and its replay over the
   *generated* table methods (Lock/Gen.v).  Definitions only.

   A replica's lock table is the fold of the generated `acquire` / `prolongate` / `release`
   over the prefix of the log that replica has applied (what SyncObj does with
   `_doApply=True`); `isAcquired` is a local read of that table. *)
From Coq Require Import ZArith NArith List Bool.
From PSO Require Import Lock.Base Lock.Gen.
Import ListNotations.
Open Scope Z_scope.

Inductive cmd :=
| Acquire (lockID clientID currentTime : Z)
| Prolongate (clientID currentTime : Z)
| Release (lockID clientID : Z).

Definition run_cmd (U : Z) (T : table) (c : cmd) : res :=
  match c with
  | Acquire l c t => acquire U T l c t
  | Prolongate c t => prolongate U T c t
  | Release l c => release U T l c
  end.

Definition apply_cmd (U : Z) (T : table) (c : cmd) : table := res_table (run_cmd U T c).

Definition run_log (U : Z) (T : table) (log : list cmd) : table := fold_left (apply_cmd U) log T.

Definition replay (U : Z) (log : list cmd) : table := run_log U init_locks log.

(* the value `isAcquired` returns, as a boolean *)
Definition is_acquired (U : Z) (T : table) (L C now : Z) : bool := res_true (isAcquired U T L C now).

(* the value a replicated `acquire` returns *)
Definition acquire_ok (U : Z) (T : table) (L C t : Z) : bool := res_true (acquire U T L C t).

(* time stamps carried by commands *)
Definition cmd_time (c : cmd) : option Z :=
  match c with Acquire _ _ t => Some t | Prolongate _ t => Some t | Release _ _ => None end.

Fixpoint cmd_times (log : list cmd) : list Z :=
  match log with
  | [] => []
  | c :: log' => match cmd_time c with Some t => t :: cmd_times log' | None => cmd_times log' end
  end.

(* time stamps of the lease-writing commands (acquire / prolongate) of client C, in log order *)
Definition lease_time_of (C : Z) (c : cmd) : option Z :=
  match c with
  | Acquire _ c' t => if c' =? C then Some t else None
  | Prolongate c' t => if c' =? C then Some t else None
  | Release _ _ => None
  end.

Fixpoint client_times (C : Z) (log : list cmd) : list Z :=
  match log with
  | [] => []
  | c :: log' => match lease_time_of C c with Some t => t :: client_times C log' | None => client_times C log' end
  end.

(* ---- correspondence (a): table-level cases ------------------------------------------- *)

Inductive op := OCmd (c : cmd) | OProbe (l c now : Z).

Definition ret_code (r : res) : Z :=
  match r with
  | Ret _ PyNone => 0
  | Ret _ (PyBool true) => 1
  | Ret _ (PyBool false) => 2
  | Raise _ => 3
  end.

Definition run_op (U : Z) (T : table) (o : op) : res :=
  match o with
  | OCmd c => run_cmd U T c
  | OProbe l c now => isAcquired U T l c now
  end.

(* expected: per op the return code and the whole dict (items in dict order) after the op.
   Result: index of the first op whose observation differs, None = all equal. *)
Fixpoint check_ops (U : Z) (T : table) (ops : list op) (expected : list (Z * table)) (i : N) : option N :=
  match ops, expected with
  | [], [] => None
  | o :: ops', (rc, T') :: expected' =>
      let r := run_op U T o in
      if (ret_code r =? rc) && table_eqb (res_table r) T'
      then check_ops U (res_table r) ops' expected' (i + 1)%N
      else Some i
  | _, _ => Some i
  end.

Definition check_table_case (U : Z) (ops : list op) (expected : list (Z * table)) : option N :=
  check_ops U init_locks ops expected 0%N.
