(* Lock/Base.v - the value types the generated lock-table model (Lock/Gen.v) is written over.

   The lock table of `_ReplLockManagerImpl` is a Python dict  lockID -> (clientID, time).
   It is modelled as an association list in *insertion order* (what a CPython >= 3.7 dict
   iterates in): `tset` on an existing key keeps the position, on a new key appends; `tdel`
   removes the binding; `tkeys` is `list(d)`.

   Identifiers (lock ids, client ids) are integers: the code only ever compares them with `==`
   and uses them as dict keys; the harness maps the strings it uses to small integers.

   Time is Z.  The code computes `currentTime - lockTime` and compares with `autoUnlockTime`
   (and, in the client wrapper, with autoUnlockTime/2.0 and autoUnlockTime/4.0) on Python floats.
   The harness only ever uses integer-valued clock readings and integer autoUnlockTime, so every
   such float operation is exact and equal to the integer comparison used here (the halves and
   quarters are compared after multiplying through: 2*(a-b) > U, 4*(a-b) < U).

   No proofs in this file (FRAMEWORK: the model keeps running when a proof breaks). *)
From Coq Require Import ZArith List Bool.
Import ListNotations.
Open Scope Z_scope.

Definition entry := (Z * Z)%type.              (* (clientID, time of acquisition / last prolongation) *)
Definition table := list (Z * entry).          (* lockID -> entry, insertion order *)

Definition tempty : table := [].

(* d.get(k, None) *)
Fixpoint tget (T : table) (k : Z) : option entry :=
  match T with
  | [] => None
  | (k', v) :: T' => if k' =? k then Some v else tget T' k
  end.

(* d[k] = v *)
Fixpoint tset (T : table) (k : Z) (v : entry) : table :=
  match T with
  | [] => [(k, v)]
  | (k', v') :: T' => if k' =? k then (k', v) :: T' else (k', v') :: tset T' k v
  end.

(* del d[k]  (the generated code checks presence first: a missing key is KeyError) *)
Fixpoint tdel (T : table) (k : Z) : table :=
  match T with
  | [] => []
  | (k', v') :: T' => if k' =? k then tdel T' k else (k', v') :: tdel T' k
  end.

(* list(d) *)
Definition tkeys (T : table) : list Z := map fst T.

(* what a method call returns *)
Inductive pyval := PyNone | PyBool (b : bool).

(* outcome of a method: normal return with the new table, or KeyError escaping with the table
   as it was at that point *)
Inductive res := Ret (locks : table) (v : pyval) | Raise (locks : table).

Definition res_table (r : res) : table := match r with Ret l _ => l | Raise l => l end.
Definition res_val (r : res) : option pyval := match r with Ret _ v => Some v | Raise _ => None end.
Definition res_true (r : res) : bool :=
  match r with Ret _ (PyBool true) => true | _ => false end.

(* outcome of one loop iteration / of a whole `for k in list(d):` loop *)
Inductive lres := Next (locks : table) | Abort (locks : table).

(* for k in ks: body   -- ks is the snapshot list(d) taken before the loop *)
Fixpoint for_keys (ks : list Z) (body : Z -> table -> lres) (locks : table) : lres :=
  match ks with
  | [] => Next locks
  | k :: ks' =>
      match body k locks with
      | Next locks' => for_keys ks' body locks'
      | Abort locks' => Abort locks'
      end
  end.

(* comparison helpers used by the case files *)
Definition entry_eqb (a b : entry) : bool := (fst a =? fst b) && (snd a =? snd b).
Fixpoint table_eqb (a b : table) : bool :=
  match a, b with
  | [], [] => true
  | (k, v) :: a', (k', v') :: b' => (k =? k') && entry_eqb v v' && table_eqb a' b'
  | _, _ => false
  end.
Definition pyval_eqb (a b : pyval) : bool :=
  match a, b with
  | PyNone, PyNone => true
  | PyBool x, PyBool y => Bool.eqb x y
  | _, _ => false
  end.
