(* Lock/Client.v - hand model of the client wrapper `ReplLockManager` (batteries.py:446-553).
   Definitions only.

   tryAcquire(lockID, callback, sync, timeout)              batteries.py:498-529
     attemptTime = time.time()
     the replicated command  acquire(lockID, selfID, attemptTime)  is issued;
     when its result arrives (sync: the call returns; async: asyncCallback runs)
       acquireTime = time.time()
       result True and  acquireTime - attemptTime > autoUnlockTime / 2.0
            =>  the client is told False and  release(lockID, selfID)  is issued (fire and forget)
     a failed command: sync => SyncObjException, async => callback(None, errCode)
     quirk (modelled, mode MSyncCallback): with sync=True *and* a callback the decorator drops
     `sync`, tryAcquire returns None at once and the user callback later receives the raw
     result - the late-acquire check is bypassed.
   isAcquired(lockID) = impl.isAcquired(lockID, selfID, time.time())      :531-538
   release(lockID)    = the replicated command release(lockID, selfID)    :540-553
   _autoAcquireThread, one iteration after the sleep                        :487-494
     if time.time() - lastProlongateTime < float(autoUnlockTime) / 4.0: skip
     no syncObj: skip;  no leader known: skip
     lastProlongateTime = time.time();  prolongate(selfID, time.time()) is issued

   Halves and quarters are compared after multiplying through (exact on the integer-valued
   times the harness uses, see Lock/Base.v). *)
From Coq Require Import ZArith NArith List Bool.
From PSO Require Import Lock.Base Lock.Gen Lock.Log.
Import ListNotations.
Open Scope Z_scope.

Inductive mode := MSync | MAsync | MSyncCallback.

Record pending := { p_lock : Z; p_attempt : Z; p_mode : mode }.

(* what the caller is told: a boolean, (None, errCode) through the callback, or SyncObjException *)
Inductive told := TBool (b : bool) | TNone | TRaise.

Definition try_issue (self L attempt : Z) : cmd := Acquire L self attempt.

(* acquireTime - attemptTime > autoUnlockTime / 2.0 *)
Definition late (U attempt acquireTime : Z) : bool := 2 * (acquireTime - attempt) >? U.

(* raw = Some b: the replicated acquire returned b (error code 0); None: it failed / timed out *)
Definition try_complete (U self : Z) (p : pending) (raw : option bool) (acquireTime : Z) : told * list cmd :=
  match p_mode p with
  | MSyncCallback => (match raw with Some b => TBool b | None => TNone end, [])
  | m =>
      match raw with
      | None => (match m with MSync => TRaise | _ => TNone end, [])
      | Some false => (TBool false, [])
      | Some true =>
          if late U (p_attempt p) acquireTime
          then (TBool false, [Release (p_lock p) self])
          else (TBool true, [])
      end
  end.

Definition client_is_acquired (U self : Z) (T : table) (L now : Z) : bool := is_acquired U T L self now.

Definition release_issue (self L : Z) : cmd := Release L self.

(* one iteration of the prolongation loop: t1, t2, t3 are the three successive clock reads *)
Definition tick (U self last : Z) (hasObj hasLeader : bool) (t1 t2 t3 : Z) : Z * list cmd :=
  if 4 * (t1 - last) <? U then (last, [])
  else if negb hasObj then (last, [])
  else if hasLeader then (t2, [Prolongate self t3])
  else (last, []).

(* ---- correspondence (b): client-level scenarios -------------------------------------------

   The harness owns the world (pending commands, commit order, which replica has applied how much);
   the model is given the final log and, per event, recomputes what the client wrapper / the
   replica must have shown.  Replica tables are `replay U (firstn k log)`. *)

Inductive rawsrc :=
| RAt (k : nat)      (* the result is the return value of log entry k applied after entries 0..k-1 *)
| RFail.             (* the command failed (error code <> 0) or the sync wait timed out *)

Inductive event :=
| EIssue (c rid L : Z) (m : mode) (attempt : Z)          (* tryAcquire: obs = the command issued *)
| EComplete (c rid : Z) (r : rawsrc) (acquireTime : Z)    (* obs = what the caller is told + commands issued *)
| ETick (c : Z) (hasObj hasLeader : bool) (t1 t2 t3 : Z)  (* obs = lastProlongateTime after + commands issued *)
| EProbe (c : Z) (k : nat) (L now : Z)                    (* client c's isAcquired, its replica has applied k entries *)
| ERelease (c L : Z)                                      (* obs = the command issued *)
| EApply (k : nat).                                       (* obs = return code of entry k on a replica that applied 0..k-1 *)

Definition enc_cmd (c : cmd) : list Z :=
  match c with
  | Acquire l c t => [1; l; c; t]
  | Prolongate c t => [2; c; t]
  | Release l c => [3; l; c]
  end.

Definition enc_told (t : told) : Z :=
  match t with TNone => 0 | TBool true => 1 | TBool false => 2 | TRaise => 3 end.

Record cstate := { lasts : list (Z * Z); pendings : list ((Z * Z) * pending) }.

Definition init_cstate : cstate := {| lasts := []; pendings := [] |}.

Fixpoint get_last (ls : list (Z * Z)) (c : Z) : Z :=       (* __lastProlongateTime starts at 0 *)
  match ls with [] => 0 | (c', v) :: ls' => if c' =? c then v else get_last ls' c end.

Fixpoint get_pending (ps : list ((Z * Z) * pending)) (c rid : Z) : option pending :=
  match ps with
  | [] => None
  | ((c', r'), p) :: ps' => if (c' =? c) && (r' =? rid) then Some p else get_pending ps' c rid
  end.

Definition entry_result (U : Z) (log : list cmd) (k : nat) : res :=
  match nth_error log k with
  | Some c => run_cmd U (replay U (firstn k log)) c
  | None => Raise []
  end.

Definition step_event (U : Z) (log : list cmd) (st : cstate) (e : event) : cstate * list Z :=
  match e with
  | EIssue c rid L m attempt =>
      ({| lasts := lasts st; pendings := ((c, rid), {| p_lock := L; p_attempt := attempt; p_mode := m |}) :: pendings st |},
       enc_cmd (try_issue c L attempt))
  | EComplete c rid r acquireTime =>
      match get_pending (pendings st) c rid with
      | None => (st, [-1])
      | Some p =>
          let raw := match r with
                     | RFail => None
                     | RAt k => Some (res_true (entry_result U log k))
                     end in
          let '(t, cmds) := try_complete U c p raw acquireTime in
          (st, enc_told t :: concat (map enc_cmd cmds))
      end
  | ETick c hasObj hasLeader t1 t2 t3 =>
      let '(last', cmds) := tick U c (get_last (lasts st) c) hasObj hasLeader t1 t2 t3 in
      ({| lasts := (c, last') :: lasts st; pendings := pendings st |}, last' :: concat (map enc_cmd cmds))
  | EProbe c k L now =>
      (st, [if client_is_acquired U c (replay U (firstn k log)) L now then 1 else 0])
  | ERelease c L => (st, enc_cmd (release_issue c L))
  | EApply k => (st, [ret_code (entry_result U log k)])
  end.

Fixpoint list_Z_eqb (a b : list Z) : bool :=
  match a, b with
  | [], [] => true
  | x :: a', y :: b' => (x =? y) && list_Z_eqb a' b'
  | _, _ => false
  end.

Fixpoint check_events (U : Z) (log : list cmd) (st : cstate) (es : list event) (expected : list (list Z)) (i : N) : option N :=
  match es, expected with
  | [], [] => None
  | e :: es', x :: expected' =>
      let '(st', obs) := step_event U log st e in
      if list_Z_eqb obs x then check_events U log st' es' expected' (i + 1)%N else Some i
  | _, _ => Some i
  end.

Definition check_client_case (U : Z) (log : list cmd) (es : list event) (expected : list (list Z)) : option N :=
  check_events U log init_cstate es expected 0%N.
