(* Lock/ProofsTable.v - facts about the generated lock table (Lock/Gen.v) on its own:
   dict algebra, one characterisation lemma per generated method (everything later goes through
   these, never through the generated text), no KeyError, well-formedness of replayed tables. *)
From Coq Require Import ZArith List Bool Lia ZifyBool.
From PSO Require Import Lock.Base Lock.Gen Lock.Log.
Import ListNotations.
Open Scope Z_scope.

(* ---- dict algebra ------------------------------------------------------------------- *)

Lemma tget_tset : forall T k v k', tget (tset T k v) k' = if k =? k' then Some v else tget T k'.
Proof.
  induction T as [|[k0 v0] T IH]; intros k v k'; simpl.
  - reflexivity.
  - destruct (k0 =? k) eqn:E; simpl.
    + destruct (k0 =? k') eqn:E1; destruct (k =? k') eqn:E2; try reflexivity; lia.
    + rewrite IH. destruct (k0 =? k') eqn:E1; destruct (k =? k') eqn:E2; try reflexivity; lia.
Qed.

Lemma tget_tdel : forall T k k', tget (tdel T k) k' = if k =? k' then None else tget T k'.
Proof.
  induction T as [|[k0 v0] T IH]; intros k k'; simpl.
  - destruct (k =? k'); reflexivity.
  - destruct (k0 =? k) eqn:E; simpl.
    + rewrite IH. destruct (k0 =? k') eqn:E1; destruct (k =? k') eqn:E2; try reflexivity; lia.
    + rewrite IH. destruct (k0 =? k') eqn:E1; destruct (k =? k') eqn:E2; try reflexivity; lia.
Qed.

Lemma in_tkeys_tget : forall T k, In k (tkeys T) <-> tget T k <> None.
Proof.
  induction T as [|[k0 v0] T IH]; intros k; simpl.
  - split; [intros [] | intros H; congruence].
  - destruct (k0 =? k) eqn:E.
    + split; [intros _; discriminate | intros _; left; lia].
    + rewrite <- IH. split; [intros [H|H]; [lia | exact H] | intros H; right; exact H].
Qed.

Lemma tkeys_tset_present : forall T k v, tget T k <> None -> tkeys (tset T k v) = tkeys T.
Proof.
  induction T as [|[k0 v0] T IH]; intros k v H; simpl in *.
  - congruence.
  - destruct (k0 =? k) eqn:E; simpl.
    + reflexivity.
    + f_equal. apply IH. exact H.
Qed.

Lemma tkeys_tset_absent : forall T k v, tget T k = None -> tkeys (tset T k v) = tkeys T ++ [k].
Proof.
  induction T as [|[k0 v0] T IH]; intros k v H; simpl in *.
  - reflexivity.
  - destruct (k0 =? k) eqn:E; simpl.
    + discriminate.
    + f_equal. apply IH. exact H.
Qed.

Lemma in_tkeys_tdel : forall T k x, In x (tkeys (tdel T k)) -> In x (tkeys T).
Proof.
  intros T k x H. apply in_tkeys_tget in H. apply in_tkeys_tget.
  rewrite tget_tdel in H. destruct (k =? x); congruence.
Qed.

(* a table is well formed when no key occurs twice (a Python dict) *)
Definition wf (T : table) : Prop := NoDup (tkeys T).

Lemma wf_empty : wf init_locks.
Proof. constructor. Qed.

Lemma wf_tdel : forall T k, wf T -> wf (tdel T k).
Proof.
  unfold wf. induction T as [|[k0 v0] T IH]; intros k H; simpl in *.
  - constructor.
  - inversion H as [|x l Hnin Hnd]; subst. destruct (k0 =? k) eqn:E; simpl.
    + apply IH. exact Hnd.
    + constructor.
      * intros Hin. apply Hnin. eapply in_tkeys_tdel. exact Hin.
      * apply IH. exact Hnd.
Qed.

Lemma NoDup_snoc : forall (l : list Z) x, NoDup l -> ~ In x l -> NoDup (l ++ [x]).
Proof.
  induction l as [|y l IH]; intros x Hnd Hnin; simpl.
  - constructor; [intros [] | constructor].
  - inversion Hnd as [|y' l' Hy Hl]; subst. constructor.
    + intros Hin. apply in_app_or in Hin. destruct Hin as [Hin | [Heq | []]].
      * contradiction.
      * subst. apply Hnin. left. reflexivity.
    + apply IH; [exact Hl | intros Hin; apply Hnin; right; exact Hin].
Qed.

Lemma wf_tset : forall T k v, wf T -> wf (tset T k v).
Proof.
  unfold wf. intros T k v H. destruct (tget T k) eqn:G.
  - rewrite tkeys_tset_present; [exact H | congruence].
  - rewrite tkeys_tset_absent by exact G.
    apply NoDup_snoc.
    + exact H.
    + intros Hin. apply in_tkeys_tget in Hin. congruence.
Qed.

(* ---- acquire ------------------------------------------------------------------------- *)

Definition acquire_spec (U : Z) (T : table) (L C t : Z) : table * bool :=
  match tget T L with
  | None => (tset T L (C, t), true)
  | Some (C', t') =>
      if (t - t' >? U) || (C' =? C) then (tset T L (C, t), true) else (T, false)
  end.

Lemma acquire_eq : forall U T L C t,
  acquire U T L C t = Ret (fst (acquire_spec U T L C t)) (PyBool (snd (acquire_spec U T L C t))).
Proof.
  intros U T L C t. unfold acquire, acquire_spec.
  destruct (tget T L) as [[C' t']|]; simpl.
  - destruct (t - t' >? U) eqn:E1; simpl.
    + reflexivity.
    + destruct (C' =? C) eqn:E2; reflexivity.
  - reflexivity.
Qed.

(* ---- release ------------------------------------------------------------------------- *)

Definition release_spec (T : table) (L C : Z) : table :=
  match tget T L with
  | Some (C', _) => if C' =? C then tdel T L else T
  | None => T
  end.

Lemma release_eq : forall U T L C, release U T L C = Ret (release_spec T L C) PyNone.
Proof.
  intros U T L C. unfold release, release_spec.
  destruct (tget T L) as [[C' t']|] eqn:G; simpl.
  - destruct (C' =? C) eqn:E; reflexivity.
  - reflexivity.
Qed.

(* ---- isAcquired ---------------------------------------------------------------------- *)

Definition held_spec (U : Z) (T : table) (L C now : Z) : bool :=
  match tget T L with
  | Some (C', t') => (C' =? C) && (now - t' <? U)
  | None => false
  end.

Lemma isAcquired_eq : forall U T L C now, isAcquired U T L C now = Ret T (PyBool (held_spec U T L C now)).
Proof.
  intros U T L C now. unfold isAcquired, held_spec.
  destruct (tget T L) as [[C' t']|]; simpl.
  - destruct (C' =? C); simpl; [destruct (now - t' <? U); reflexivity | reflexivity].
  - reflexivity.
Qed.

Lemma res_true_bool : forall T b, res_true (Ret T (PyBool b)) = b.
Proof. intros T [|]; reflexivity. Qed.

Lemma is_acquired_iff : forall U T L C now,
  is_acquired U T L C now = true <-> exists t', tget T L = Some (C, t') /\ now - t' < U.
Proof.
  intros U T L C now. unfold is_acquired. rewrite isAcquired_eq. rewrite res_true_bool. unfold held_spec.
  destruct (tget T L) as [[C' t']|].
  - split.
    + intros H. apply andb_prop in H. destruct H as [Ha Hb].
      apply Z.eqb_eq in Ha. apply Z.ltb_lt in Hb. subst. exists t'. split; [reflexivity | exact Hb].
    + intros [t0 [H1 H2]]. inversion H1; subst. apply andb_true_intro. split.
      * apply Z.eqb_refl.
      * apply Z.ltb_lt. exact H2.
  - split; [discriminate | intros [t0 [H1 _]]; discriminate].
Qed.

(* ---- prolongate: the loop ------------------------------------------------------------ *)

Definition prol_entry (U C t : Z) (e : entry) : option entry :=
  if t - snd e >? U then None else if fst e =? C then Some (C, t) else Some e.

Section ForKeys.
  Variable body : Z -> table -> lres.
  Variable f : entry -> option entry.
  Hypothesis Hbody : forall k T e, tget T k = Some e ->
    exists T', body k T = Next T'
               /\ (forall k', tget T' k' = if k =? k' then f e else tget T k')
               /\ (wf T -> wf T').

  Lemma for_keys_spec : forall ks T,
    NoDup ks -> (forall k, In k ks -> tget T k <> None) -> wf T ->
    exists T', for_keys ks body T = Next T' /\ wf T'
      /\ (forall k, In k ks -> tget T' k = match tget T k with Some e => f e | None => None end)
      /\ (forall k, ~ In k ks -> tget T' k = tget T k).
  Proof.
    induction ks as [|k ks IH]; intros T Hnd Hpres Hwf; simpl.
    - exists T. split; [reflexivity | split; [exact Hwf | split; [intros k [] | intros; reflexivity]]].
    - inversion Hnd as [|x l Hnin Hnd']; subst.
      destruct (tget T k) as [e|] eqn:G; [| exfalso; apply (Hpres k); [left; reflexivity | exact G]].
      destruct (Hbody k T e G) as [T1 [Hb [Hget1 Hwf1]]]. rewrite Hb.
      assert (Hpres1 : forall k2, In k2 ks -> tget T1 k2 <> None).
      { intros k2 Hin. rewrite Hget1. destruct (k =? k2) eqn:E.
        - assert (k = k2) by lia. subst. contradiction.
        - apply Hpres. right. exact Hin. }
      destruct (IH T1 Hnd' Hpres1 (Hwf1 Hwf)) as [T' [Hf [Hwf' [Hin' Hout']]]].
      exists T'. split; [exact Hf | split; [exact Hwf' | split]].
      + intros k2 [Heq | Hin].
        * subst k2. rewrite (Hout' k Hnin). rewrite Hget1. rewrite Z.eqb_refl. rewrite G. reflexivity.
        * rewrite (Hin' k2 Hin). rewrite Hget1. destruct (k =? k2) eqn:E.
          -- assert (k = k2) by lia. subst. contradiction.
          -- reflexivity.
      + intros k2 Hnot. rewrite (Hout' k2); [| intros Hin; apply Hnot; right; exact Hin].
        rewrite Hget1. destruct (k =? k2) eqn:E.
        * exfalso. apply Hnot. left. lia.
        * reflexivity.
  Qed.
End ForKeys.

Lemma prolongate_spec : forall U T C t, wf T ->
  exists T', prolongate U T C t = Ret T' PyNone /\ wf T'
    /\ forall L, tget T' L = match tget T L with Some e => prol_entry U C t e | None => None end.
Proof.
  intros U T C t Hwf. unfold prolongate.
  match goal with |- context [for_keys _ ?b _] => set (body := b) end.
  assert (Hbody : forall k T0 e, tget T0 k = Some e ->
            exists T', body k T0 = Next T'
                       /\ (forall k', tget T' k' = if k =? k' then prol_entry U C t e else tget T0 k')
                       /\ (wf T0 -> wf T')).
  { intros k T0 [C' t'] G. unfold body, prol_entry. rewrite G. simpl.
    destruct (t - t' >? U) eqn:E1.
    - exists (tdel T0 k). split; [reflexivity | split].
      + intros k'. rewrite tget_tdel. reflexivity.
      + apply wf_tdel.
    - destruct (C' =? C) eqn:E2.
      + exists (tset T0 k (C, t)). split; [reflexivity | split].
        * intros k'. rewrite tget_tset. reflexivity.
        * apply wf_tset.
      + exists T0. split; [reflexivity | split].
        * intros k'. destruct (k =? k') eqn:E3; [| reflexivity].
          assert (k = k') by lia. subst. exact G.
        * intros H; exact H. }
  destruct (for_keys_spec body (prol_entry U C t) Hbody (tkeys T) T) as [T' [Hf [Hwf' [Hin Hout]]]].
  - exact Hwf.
  - intros k Hk. apply in_tkeys_tget. exact Hk.
  - exact Hwf.
  - exists T'. rewrite Hf. split; [reflexivity | split; [exact Hwf' |]].
    intros L. destruct (tget T L) as [e|] eqn:G.
    + rewrite (Hin L); [rewrite G; reflexivity |]. apply in_tkeys_tget. congruence.
    + rewrite (Hout L); [exact G |]. intros Hk. apply in_tkeys_tget in Hk. congruence.
Qed.

(* ---- effect of one command on the binding of one lock -------------------------------- *)

Lemma apply_acquire_get : forall U T l C t L,
  tget (apply_cmd U T (Acquire l C t)) L =
  if l =? L then
    match tget T L with
    | None => Some (C, t)
    | Some (C', t') => if (t - t' >? U) || (C' =? C) then Some (C, t) else Some (C', t')
    end
  else tget T L.
Proof.
  intros U T l C t L. unfold apply_cmd. simpl. rewrite acquire_eq. simpl. unfold acquire_spec.
  destruct (l =? L) eqn:E.
  - assert (l = L) by lia. subst l.
    destruct (tget T L) as [[C' t']|] eqn:G; simpl.
    + destruct ((t - t' >? U) || (C' =? C)); simpl.
      * rewrite tget_tset. rewrite Z.eqb_refl. reflexivity.
      * exact G.
    + rewrite tget_tset. rewrite Z.eqb_refl. reflexivity.
  - destruct (tget T l) as [[C' t']|] eqn:G; simpl.
    + destruct ((t - t' >? U) || (C' =? C)); simpl.
      * rewrite tget_tset. rewrite E. reflexivity.
      * reflexivity.
    + rewrite tget_tset. rewrite E. reflexivity.
Qed.

Lemma apply_prolongate_get : forall U T C t L, wf T ->
  tget (apply_cmd U T (Prolongate C t)) L =
  match tget T L with Some e => prol_entry U C t e | None => None end.
Proof.
  intros U T C t L Hwf. unfold apply_cmd. simpl.
  destruct (prolongate_spec U T C t Hwf) as [T' [Hp [_ Hget]]]. rewrite Hp. simpl. apply Hget.
Qed.

Lemma apply_release_get : forall U T l C L,
  tget (apply_cmd U T (Release l C)) L =
  if l =? L then
    match tget T L with
    | Some (C', t') => if C' =? C then None else Some (C', t')
    | None => None
    end
  else tget T L.
Proof.
  intros U T l C L. unfold apply_cmd. simpl. rewrite release_eq. simpl. unfold release_spec.
  destruct (l =? L) eqn:E.
  - assert (l = L) by lia. subst l.
    destruct (tget T L) as [[C' t']|] eqn:G.
    + destruct (C' =? C).
      * rewrite tget_tdel. rewrite Z.eqb_refl. reflexivity.
      * exact G.
    + exact G.
  - destruct (tget T l) as [[C' t']|] eqn:G.
    + destruct (C' =? C).
      * rewrite tget_tdel. rewrite E. reflexivity.
      * reflexivity.
    + reflexivity.
Qed.

(* ---- well-formedness is preserved; no KeyError ---------------------------------------- *)

Lemma wf_apply : forall U T c, wf T -> wf (apply_cmd U T c).
Proof.
  intros U T c Hwf. destruct c as [l C t | C t | l C]; unfold apply_cmd; simpl.
  - rewrite acquire_eq. simpl. unfold acquire_spec.
    destruct (tget T l) as [[C' t']|]; simpl.
    + destruct ((t - t' >? U) || (C' =? C)); simpl; [apply wf_tset; exact Hwf | exact Hwf].
    + apply wf_tset; exact Hwf.
  - destruct (prolongate_spec U T C t Hwf) as [T' [Hp [Hwf' _]]]. rewrite Hp. exact Hwf'.
  - rewrite release_eq. simpl. unfold release_spec.
    destruct (tget T l) as [[C' t']|]; [destruct (C' =? C); [apply wf_tdel |] |]; exact Hwf.
Qed.

Lemma wf_run_log : forall U log T, wf T -> wf (run_log U T log).
Proof.
  intros U log. induction log as [|c log IH]; intros T Hwf; simpl.
  - exact Hwf.
  - apply IH. apply wf_apply. exact Hwf.
Qed.

Lemma wf_replay : forall U log, wf (replay U log).
Proof. intros. apply wf_run_log. apply wf_empty. Qed.

Lemma run_cmd_returns : forall U T c, wf T -> exists T' v, run_cmd U T c = Ret T' v.
Proof.
  intros U T c Hwf. destruct c as [l C t | C t | l C]; simpl.
  - rewrite acquire_eq. eauto.
  - destruct (prolongate_spec U T C t Hwf) as [T' [Hp _]]. eauto.
  - rewrite release_eq. eauto.
Qed.

Lemma no_keyerror : forall U log c, exists T' v, run_cmd U (replay U log) c = Ret T' v.
Proof. intros. apply run_cmd_returns. apply wf_replay. Qed.

Lemma run_log_app : forall U a b T, run_log U T (a ++ b) = run_log U (run_log U T a) b.
Proof. intros. unfold run_log. apply fold_left_app. Qed.

Lemma replay_app : forall U a b, replay U (a ++ b) = run_log U (replay U a) b.
Proof. intros. unfold replay. apply run_log_app. Qed.

Lemma replay_snoc : forall U a c, replay U (a ++ [c]) = apply_cmd U (replay U a) c.
Proof. intros. rewrite replay_app. reflexivity. Qed.
