(* Lock/ProofsExclusion.v - C16 on the replicated lock table: mutual exclusion between two replicas
   (one possibly lagging), necessity of each proviso, expiry, foreign release. *)
From Coq Require Import ZArith List Bool Lia ZifyBool Sorted.
From PSO Require Import Lock.Base Lock.Gen Lock.Log Lock.ProofsTable.
Import ListNotations.
Open Scope Z_scope.

(* ---- same replica: exclusion needs nothing -------------------------------------------- *)

Lemma exclusion_same_replica : forall U T L A B nowA nowB,
  A <> B ->
  ~ (is_acquired U T L A nowA = true /\ is_acquired U T L B nowB = true).
Proof.
  intros U T L A B nowA nowB Hne [HA HB].
  apply is_acquired_iff in HA. apply is_acquired_iff in HB.
  destruct HA as [ta [GA _]]. destruct HB as [tb [GB _]].
  rewrite GA in GB. inversion GB. contradiction.
Qed.

(* ---- bookkeeping on logs -------------------------------------------------------------- *)

Lemma client_times_app : forall C a b, client_times C (a ++ b) = client_times C a ++ client_times C b.
Proof.
  intros C a b. induction a as [|c a IH]; simpl.
  - reflexivity.
  - destruct (lease_time_of C c); [rewrite IH; reflexivity | exact IH].
Qed.

Lemma StronglySorted_app_le : forall (a b : list Z),
  StronglySorted Z.le (a ++ b) -> forall x y, In x a -> In y b -> x <= y.
Proof.
  induction a as [|z a IH]; intros b Hs x y Hx Hy; simpl in *.
  - contradiction.
  - inversion Hs as [|z' l Hs' Hall]; subst. destruct Hx as [Hx | Hx].
    + subst z. rewrite Forall_forall in Hall. apply Hall. apply in_or_app. right. exact Hy.
    + eapply IH; eauto.
Qed.

(* time stamps of client C's lease-writing commands are non-decreasing along the log *)
Definition client_mono (C : Z) (log : list cmd) : Prop := StronglySorted Z.le (client_times C log).

(* every lease in a replayed table was written by a command of its owner carrying that time *)
Lemma lease_from_log : forall U log L C t,
  tget (replay U log) L = Some (C, t) -> In t (client_times C log).
Proof.
  intros U log. induction log as [|c log IH] using rev_ind; intros L C t G.
  - discriminate.
  - rewrite replay_snoc in G. rewrite client_times_app. apply in_or_app.
    destruct c as [l C1 t1 | C1 t1 | l C1].
    + rewrite apply_acquire_get in G. simpl. destruct (l =? L) eqn:E.
      * destruct (tget (replay U log) L) as [[C' t']|] eqn:G0.
        -- destruct ((t1 - t' >? U) || (C' =? C1)).
           ++ inversion G; subst. right. rewrite Z.eqb_refl. left. reflexivity.
           ++ inversion G; subst. left. eapply IH. exact G0.
        -- inversion G; subst. right. rewrite Z.eqb_refl. left. reflexivity.
      * left. eapply IH. exact G.
    + rewrite apply_prolongate_get in G by apply wf_replay. simpl.
      destruct (tget (replay U log) L) as [[C' t']|] eqn:G0; [| discriminate].
      unfold prol_entry in G. simpl in G. destruct (t1 - t' >? U); [discriminate |].
      destruct (C' =? C1) eqn:E.
      * inversion G; subst. right. rewrite Z.eqb_refl. left. reflexivity.
      * inversion G; subst. left. eapply IH. exact G0.
    + rewrite apply_release_get in G. left. destruct (l =? L).
      * destruct (tget (replay U log) L) as [[C' t']|] eqn:G0; [| discriminate].
        destruct (C' =? C1); [discriminate |]. inversion G; subst. eapply IH. exact G0.
      * eapply IH. exact G.
Qed.

(* ---- two replicas: the lease of A survives the suffix --------------------------------- *)

(* If A's lease on L is still running at `now` (now - tA < U), nothing in the suffix d is stamped
   later than `now`, A's own lease-writing commands in d do not move the lease before tA, and A
   does not release L in d, then after d the lock is still A's. *)
Lemma lease_kept : forall U L A tA now d T,
  wf T ->
  now - tA < U ->
  (forall t, In t (cmd_times d) -> t <= now) ->
  (forall t, In t (client_times A d) -> tA <= t) ->
  ~ In (Release L A) d ->
  (exists t', tget T L = Some (A, t') /\ tA <= t') ->
  exists t', tget (run_log U T d) L = Some (A, t') /\ tA <= t'.
Proof.
  intros U L A tA now d. induction d as [|c d IH]; intros T Hwf Hlive Hnow Hmono Hrel Hinv; simpl.
  - exact Hinv.
  - apply IH.
    + apply wf_apply. exact Hwf.
    + exact Hlive.
    + intros t Ht. apply Hnow. simpl. destruct (cmd_time c); [right |]; exact Ht.
    + intros t Ht. apply Hmono. simpl. destruct (lease_time_of A c); [right |]; exact Ht.
    + intros Hin. apply Hrel. right. exact Hin.
    + destruct Hinv as [t' [G Hle]].
      destruct c as [l C1 t1 | C1 t1 | l C1].
      * rewrite apply_acquire_get. rewrite G.
        assert (Ht1 : t1 <= now) by (apply Hnow; simpl; left; reflexivity).
        destruct (l =? L) eqn:E; [| exists t'; split; [reflexivity | exact Hle]].
        assert (Hexp : (t1 - t' >? U) = false) by lia. rewrite Hexp. simpl.
        destruct (A =? C1) eqn:E1.
        -- assert (A = C1) by lia. subst C1. exists t1. split; [reflexivity |].
           apply Hmono. simpl. rewrite Z.eqb_refl. left. reflexivity.
        -- exists t'. split; [reflexivity | exact Hle].
      * rewrite apply_prolongate_get by exact Hwf. rewrite G. unfold prol_entry. simpl.
        assert (Ht1 : t1 <= now) by (apply Hnow; simpl; left; reflexivity).
        assert (Hexp : (t1 - t' >? U) = false) by lia. rewrite Hexp.
        destruct (A =? C1) eqn:E1.
        -- assert (A = C1) by lia. subst C1. exists t1. split; [reflexivity |].
           apply Hmono. simpl. rewrite Z.eqb_refl. left. reflexivity.
        -- exists t'. split; [reflexivity | exact Hle].
      * rewrite apply_release_get. rewrite G.
        destruct (l =? L) eqn:E; [| exists t'; split; [reflexivity | exact Hle]].
        destruct (A =? C1) eqn:E1.
        -- exfalso. apply Hrel. left. assert (l = L) by lia. assert (A = C1) by lia. subst. reflexivity.
        -- exists t'. split; [reflexivity | exact Hle].
Qed.

(* the general form: A on the replica that applied p1, B on the replica that applied p1 ++ d *)
Lemma mutual_exclusion : forall U p1 d L A B now,
  A <> B ->
  (forall t, In t (cmd_times d) -> t <= now) ->
  client_mono A (p1 ++ d) ->
  ~ In (Release L A) d ->
  ~ (is_acquired U (replay U p1) L A now = true /\ is_acquired U (replay U (p1 ++ d)) L B now = true).
Proof.
  intros U p1 d L A B now Hne Hnow Hmono Hrel [HA HB].
  apply is_acquired_iff in HA. destruct HA as [tA [GA Hlive]].
  apply is_acquired_iff in HB. destruct HB as [tB [GB _]].
  assert (HtA : In tA (client_times A p1)) by (eapply lease_from_log; exact GA).
  unfold client_mono in Hmono. rewrite client_times_app in Hmono.
  destruct (lease_kept U L A tA now d (replay U p1)) as [t' [G' _]].
  - apply wf_replay.
  - exact Hlive.
  - exact Hnow.
  - intros t Ht. eapply StronglySorted_app_le; eauto.
  - exact Hrel.
  - exists tA. split; [exact GA | lia].
  - rewrite replay_app in GB. rewrite G' in GB. inversion GB. contradiction.
Qed.

(* non-vacuity: a log where all three provisos hold, A really holds the lock on the lagging replica,
   B tries and prolongs, and the conclusion is not trivially about an empty table *)
Example mutual_exclusion_instance :
  let U := 10 in let p1 := [Acquire 7 1 100; Prolongate 1 103] in
  let d := [Acquire 7 2 104; Prolongate 2 105; Prolongate 1 106; Release 7 2; Acquire 8 2 107] in
  1 <> 2 /\ (forall t, In t (cmd_times d) -> t <= 108) /\ client_mono 1 (p1 ++ d) /\ ~ In (Release 7 1) d
  /\ is_acquired U (replay U p1) 7 1 108 = true
  /\ is_acquired U (replay U (p1 ++ d)) 7 2 108 = false
  /\ is_acquired U (replay U (p1 ++ d)) 8 2 108 = true.
Proof.
  cbv zeta. split; [lia | split; [| split; [| split]]].
  - simpl. intros t H. repeat (destruct H as [H | H]; [lia |]). contradiction.
  - unfold client_mono. simpl. repeat constructor; lia.
  - simpl. intros H. repeat (destruct H as [H | H]; [discriminate |]). contradiction.
  - vm_compute. repeat split.
Qed.

(* ---- each proviso is necessary --------------------------------------------------------- *)

(* (i) per-client monotonic time stamps.  A delayed, older prolongation of A (stamped 8) is
   committed after A's acquire (stamped 10): it moves the lease time backwards, B takes the lock
   over at 14 (14 - 8 > 5) while A, on a replica that has only applied the acquire, still sees its
   lease running (14 - 10 < 5). *)
Lemma mono_proviso_necessary :
  exists U p1 d L A B now,
    A <> B /\ (forall t, In t (cmd_times d) -> t <= now) /\ ~ In (Release L A) d
    /\ ~ client_mono A (p1 ++ d)
    /\ is_acquired U (replay U p1) L A now = true
    /\ is_acquired U (replay U (p1 ++ d)) L B now = true.
Proof.
  exists 5, [Acquire 0 1 10], [Prolongate 1 8; Acquire 0 2 14], 0, 1, 2, 14.
  split; [lia | split; [| split; [| split; [| split]]]].
  - simpl. intros t H. repeat (destruct H as [H | H]; [lia |]). contradiction.
  - simpl. intros H. repeat (destruct H as [H | H]; [discriminate |]). contradiction.
  - unfold client_mono. simpl. intros H. inversion H as [|a l Hs Hall]; subst.
    inversion Hall as [|x l' Hle Hrest]; subst. lia.
  - vm_compute. reflexivity.
  - vm_compute. reflexivity.
Qed.

(* (ii) no release by A between the two replicas' positions.  A released (the release is in the
   log), B acquired, A's replica has not applied the release yet. *)
Lemma release_proviso_necessary :
  exists U p1 d L A B now,
    A <> B /\ (forall t, In t (cmd_times d) -> t <= now) /\ client_mono A (p1 ++ d)
    /\ In (Release L A) d
    /\ is_acquired U (replay U p1) L A now = true
    /\ is_acquired U (replay U (p1 ++ d)) L B now = true.
Proof.
  exists 5, [Acquire 0 1 10], [Release 0 1; Acquire 0 2 11], 0, 1, 2, 11.
  split; [lia | split; [| split; [| split; [| split]]]].
  - simpl. intros t H. repeat (destruct H as [H | H]; [lia |]). contradiction.
  - unfold client_mono. simpl. repeat constructor.
  - simpl. left. reflexivity.
  - vm_compute. reflexivity.
  - vm_compute. reflexivity.
Qed.

(* (iii) a common clock: no command of the suffix is stamped later than `now`.  B's clock is ahead:
   its acquire is stamped 16 and takes the lock over (16 - 10 > 5) at real time 12, when A's lease
   (12 - 10 < 5) is still running. *)
Lemma clock_proviso_necessary :
  exists U p1 d L A B now,
    A <> B /\ client_mono A (p1 ++ d) /\ ~ In (Release L A) d
    /\ ~ (forall t, In t (cmd_times d) -> t <= now)
    /\ is_acquired U (replay U p1) L A now = true
    /\ is_acquired U (replay U (p1 ++ d)) L B now = true.
Proof.
  exists 5, [Acquire 0 1 10], [Acquire 0 2 16], 0, 1, 2, 12.
  split; [lia | split; [| split; [| split; [| split]]]].
  - unfold client_mono. simpl. repeat constructor.
  - simpl. intros H. repeat (destruct H as [H | H]; [discriminate |]). contradiction.
  - intros H. specialize (H 16). simpl in H. lia.
  - vm_compute. reflexivity.
  - vm_compute. reflexivity.
Qed.

(* ---- expiry ---------------------------------------------------------------------------- *)

(* along a suffix without lease-writing commands of the holder H, the binding of L is: gone, still
   exactly (H, t), or somebody else's *)
Lemma holder_silent_inv : forall U L H t s T,
  wf T ->
  client_times H s = [] ->
  (tget T L = None \/ tget T L = Some (H, t) \/ exists C' t', C' <> H /\ tget T L = Some (C', t')) ->
  let T' := run_log U T s in
  tget T' L = None \/ tget T' L = Some (H, t) \/ exists C' t', C' <> H /\ tget T' L = Some (C', t').
Proof.
  intros U L H t s. induction s as [|c s IH]; intros T Hwf Hsil Hinv; simpl.
  - exact Hinv.
  - simpl in Hsil. destruct (lease_time_of H c) eqn:Hl; [discriminate |].
    apply IH; [apply wf_apply; exact Hwf | exact Hsil |].
    destruct c as [l C1 t1 | C1 t1 | l C1].
    + simpl in Hl. destruct (C1 =? H) eqn:E; [discriminate |]. assert (HC1 : C1 <> H) by lia.
      rewrite apply_acquire_get. destruct (l =? L); [| exact Hinv].
      destruct (tget T L) as [[C' t']|] eqn:G.
      * destruct ((t1 - t' >? U) || (C' =? C1)).
        -- right. right. exists C1, t1. split; [exact HC1 | reflexivity].
        -- exact Hinv.
      * right. right. exists C1, t1. split; [exact HC1 | reflexivity].
    + simpl in Hl. destruct (C1 =? H) eqn:E; [discriminate |]. assert (HC1 : C1 <> H) by lia.
      rewrite apply_prolongate_get by exact Hwf.
      destruct (tget T L) as [[C' t']|] eqn:G; [| left; reflexivity].
      unfold prol_entry. simpl. destruct (t1 - t' >? U); [left; reflexivity |].
      destruct (C' =? C1) eqn:E2.
      * right. right. exists C1, t1. split; [exact HC1 | reflexivity].
      * exact Hinv.
    + rewrite apply_release_get. destruct (l =? L); [| exact Hinv].
      destruct (tget T L) as [[C' t']|] eqn:G; [| left; reflexivity].
      destruct (C' =? C1); [left; reflexivity | exact Hinv].
Qed.

Lemma acquire_ok_spec : forall U T L C t, acquire_ok U T L C t = snd (acquire_spec U T L C t).
Proof. intros. unfold acquire_ok. rewrite acquire_eq. apply res_true_bool. Qed.

(* After the holder H of L (lease time t) has gone silent, any client C whose acquire is stamped
   more than U after t obtains L - unless a third client obtained it in the meantime and that
   client's lease is not yet expired at tc. *)
Lemma expiry : forall U log s L H t C tc,
  tget (replay U log) L = Some (H, t) ->
  client_times H s = [] ->
  tc - t > U ->
  acquire_ok U (replay U (log ++ s)) L C tc = true
  \/ exists C' t', C' <> H /\ C' <> C /\ tget (replay U (log ++ s)) L = Some (C', t') /\ tc - t' <= U.
Proof.
  intros U log s L H t C tc G Hsil Hexp.
  rewrite replay_app. rewrite acquire_ok_spec. unfold acquire_spec.
  destruct (holder_silent_inv U L H t s (replay U log) (wf_replay U log) Hsil) as [Hn | [Hh | [C' [t' [Hne Ho]]]]].
  - right. left. exact G.
  - rewrite Hn. left. reflexivity.
  - rewrite Hh. assert (E : (tc - t >? U) = true) by lia. rewrite E. left. reflexivity.
  - rewrite Ho. destruct ((tc - t' >? U) || (C' =? C)) eqn:E.
    + left. reflexivity.
    + right. exists C', t'. split; [exact Hne | split; [lia | split; [reflexivity | lia]]].
Qed.

Definition is_acquire_of (L : Z) (c : cmd) : bool :=
  match c with Acquire l _ _ => l =? L | _ => false end.

(* same, when nobody else acquired L in the suffix either (prolongations and releases by anyone
   but H, acquires of other locks are allowed): the acquire succeeds *)
Lemma expiry_uncontended : forall U log s L H t C tc,
  tget (replay U log) L = Some (H, t) ->
  client_times H s = [] ->
  existsb (is_acquire_of L) s = false ->
  tc - t > U ->
  acquire_ok U (replay U (log ++ s)) L C tc = true.
Proof.
  intros U log s L H t C tc G Hsil Hnoacq Hexp.
  rewrite replay_app. rewrite acquire_ok_spec. unfold acquire_spec.
  assert (Hinv : tget (run_log U (replay U log) s) L = None \/ tget (run_log U (replay U log) s) L = Some (H, t)).
  { generalize (wf_replay U log). assert (G0 : tget (replay U log) L = None \/ tget (replay U log) L = Some (H, t)) by (right; exact G).
    clear G. revert G0. generalize (replay U log) as T.
    induction s as [|c s IH]; intros T Hinv Hwf; simpl.
    - exact Hinv.
    - simpl in Hsil. destruct (lease_time_of H c) eqn:Hl; [discriminate |].
      simpl in Hnoacq. apply orb_false_elim in Hnoacq. destruct Hnoacq as [Hc Hs].
      apply IH; [exact Hsil | exact Hs | | apply wf_apply; exact Hwf].
      destruct c as [l C1 t1 | C1 t1 | l C1].
      + simpl in Hc. rewrite apply_acquire_get. rewrite Hc. exact Hinv.
      + simpl in Hl. destruct (C1 =? H) eqn:E; [discriminate |].
        rewrite apply_prolongate_get by exact Hwf.
        destruct Hinv as [Hn | Hh].
        * rewrite Hn. left. reflexivity.
        * rewrite Hh. unfold prol_entry. simpl. destruct (t1 - t >? U); [left; reflexivity |].
          assert (E2 : (H =? C1) = false) by lia. rewrite E2. right. reflexivity.
      + rewrite apply_release_get. destruct (l =? L); [| exact Hinv].
        destruct Hinv as [Hn | Hh].
        * rewrite Hn. left. reflexivity.
        * rewrite Hh. destruct (H =? C1); [left | right]; reflexivity. }
  destruct Hinv as [Hn | Hh].
  - rewrite Hn. reflexivity.
  - rewrite Hh. assert (E : (tc - t >? U) = true) by lia. rewrite E. reflexivity.
Qed.

(* non-vacuity: holder 1 goes silent at 100; others prolong, release, touch another lock; at 111
   (111 - 100 > 10) client 3 obtains lock 7; at 110 (not yet expired) it does not *)
Example expiry_instance :
  let U := 10 in let log := [Acquire 7 1 95; Prolongate 1 100] in
  let s := [Prolongate 2 104; Acquire 8 2 105; Release 7 2; Prolongate 2 109] in
  tget (replay U log) 7 = Some (1, 100) /\ client_times 1 s = [] /\ existsb (is_acquire_of 7) s = false
  /\ acquire_ok U (replay U (log ++ s)) 7 3 111 = true
  /\ acquire_ok U (replay U (log ++ s)) 7 3 110 = false.
Proof. vm_compute. repeat split. Qed.

(* ---- release ---------------------------------------------------------------------------- *)

Lemma release_foreign_noop : forall U T L C,
  (forall t, tget T L <> Some (C, t)) ->
  release U T L C = Ret T PyNone.
Proof.
  intros U T L C Hnot. rewrite release_eq. unfold release_spec.
  destruct (tget T L) as [[C' t']|] eqn:G; [| reflexivity].
  destruct (C' =? C) eqn:E; [| reflexivity].
  exfalso. apply (Hnot t'). assert (C' = C) by lia. subst. reflexivity.
Qed.

Example release_foreign_instance :
  let U := 10 in let T := replay U [Acquire 7 1 100; Acquire 8 2 101] in
  (forall t, tget T 7 <> Some (2, t)) /\ release U T 7 2 = Ret T PyNone /\ T = [(7, (1, 100)); (8, (2, 101))]
  /\ res_table (release U T 7 1) = [(8, (2, 101))].
Proof. vm_compute. repeat split. intros t H. discriminate. Qed.

(* once a release of the holder is applied the holder no longer sees the lock as acquired *)
Lemma release_drops_lock : forall U T L C now,
  is_acquired U (apply_cmd U T (Release L C)) L C now = false.
Proof.
  intros U T L C now. destruct (is_acquired U (apply_cmd U T (Release L C)) L C now) eqn:E; [| reflexivity].
  apply is_acquired_iff in E. destruct E as [t' [G _]].
  rewrite apply_release_get in G. rewrite Z.eqb_refl in G.
  destruct (tget T L) as [[C' t0]|]; [| discriminate].
  destruct (C' =? C) eqn:E2; [discriminate |]. inversion G. lia.
Qed.
