#!/venv/bin/python
"""lock2v.py - fail-closed Python-ast -> Gallina translator for `_ReplLockManagerImpl`
(pysyncobj/batteries.py): acquire, prolongate, release, isAcquired (+ the shape of __init__).

Output: /verif/coq/Lock/Gen.v (over the types of Lock/Base.v), regenerated on every check run
from the *working tree* of /repo and rewritten only when its text changes.

Every method becomes

    Definition <name> (autoUnlockTime : Z) (locks : table) (<args> : Z) : res

`locks` is `self.__locks` threaded through the body, `autoUnlockTime` is `self.__autoUnlockTime`.
The translator knows exactly one shape per statement / expression it accepts (listed below);
anything else raises Untranslatable -> exit code 2, message
`untranslatable construct at batteries.py:LINE`.  It never guesses.

Statements
    X = self.__locks.get(K, None)         let X := tget locks K in            (X : option entry)
    X = None                              let X := None in                    (X already optional)
    A, B = self.__locks[K]                match tget locks K with Some (A, B) => .. | None => <KeyError> end
    self.__locks[K] = (E1, E2)            let locks := tset locks K (E1, E2) in
    del self.__locks[K]                   match tget locks K with Some _ => let locks := tdel locks K in ..
                                                              | None => <KeyError> end
    if T: <body ending in return/continue>        if T then body else rest
    if T: <body without return/continue/KeyError> let '(assigned vars) := if T then body; vars else vars in rest
    for K in list(self.__locks): body     for_keys (tkeys locks) (fun K locks => body) locks
    return True | return False | return   Ret locks (PyBool b) | Ret locks PyNone
    continue                              Next locks
  `if X is not None:` (X optional) is a `match X with Some X_v => .. | None => .. end`, and only under
  such a guard (or to the right of `X is not None and ..` / `X is None or ..`) is `X[0]` / `X[1]`
  accepted (fst / snd of X_v) - so no subscript of None can be reached in the translated text.
Expressions
    names, self.__autoUnlockTime, a - b, a + b, one comparison (> < >= <= == !=) of integers,
    X is None / X is not None, and / or / not of booleans, True / False.
"""
import ast
import os
import sys

REPO = (os.environ.get('VERIF_REPO') or '/repo')
VERIF = os.path.dirname(os.path.dirname(os.path.abspath(__file__)))
SRC = os.path.join(REPO, 'pysyncobj', 'batteries.py')
OUT = os.path.join(VERIF, 'coq', 'Lock', 'Gen.v')
CLASS = '_ReplLockManagerImpl'
# method -> (argument count after self, must be @replicated?)
EXPECTED = {'acquire': (3, True), 'prolongate': (2, True), 'release': (2, True), 'isAcquired': (3, False)}
ORDER = ['acquire', 'prolongate', 'release', 'isAcquired']
RESERVED = {'locks', 'autoUnlockTime', 'self', 'tget', 'tset', 'tdel', 'tkeys', 'for_keys', 'fst', 'snd',
            'Ret', 'Raise', 'Next', 'Abort', 'PyNone', 'PyBool', 'Some', 'None', 'true', 'false', 'negb',
            'match', 'with', 'end', 'let', 'in', 'if', 'then', 'else', 'fun', 'table', 'res', 'Z'}


class Untranslatable(Exception):
    def __init__(self, node, why=''):
        self.line = getattr(node, 'lineno', 0)
        self.why = why
        Exception.__init__(self, 'untranslatable construct at batteries.py:%d%s' % (self.line, (' (%s)' % why) if why else ''))


class Env(object):
    """types: var -> 'Z' | 'opt';  nn: optional var -> name of its unwrapped value (known not None)"""

    def __init__(self, types=None, nn=None):
        self.types = dict(types or {})
        self.nn = dict(nn or {})

    def copy(self):
        return Env(self.types, self.nn)


def is_self_attr(e, name):
    return (isinstance(e, ast.Attribute) and isinstance(e.value, ast.Name) and e.value.id == 'self'
            and e.attr == name)


def is_none(e):
    return isinstance(e, ast.Constant) and e.value is None


def none_test(e, env):
    """(var, True) for `X is None`, (var, False) for `X is not None`, X an optional variable; else None"""
    if (isinstance(e, ast.Compare) and len(e.ops) == 1 and isinstance(e.left, ast.Name)
            and is_none(e.comparators[0]) and isinstance(e.ops[0], (ast.Is, ast.IsNot))):
        x = e.left.id
        if env.types.get(x) != 'opt':
            raise Untranslatable(e, 'None test of a non-optional value')
        return x, isinstance(e.ops[0], ast.Is)
    return None


CMP = {ast.Gt: '>?', ast.Lt: '<?', ast.GtE: '>=?', ast.LtE: '<=?', ast.Eq: '=?'}


def expr(e, env):
    """-> (gallina text, type) with type in 'Z', 'bool'"""
    if isinstance(e, ast.Name):
        if env.types.get(e.id) == 'Z':
            return e.id, 'Z'
        raise Untranslatable(e, 'name %s is not an integer in scope' % e.id)
    if is_self_attr(e, '__autoUnlockTime'):
        return 'autoUnlockTime', 'Z'
    if isinstance(e, ast.Constant) and (e.value is True or e.value is False):
        return ('true' if e.value else 'false'), 'bool'
    if isinstance(e, ast.BinOp) and isinstance(e.op, (ast.Sub, ast.Add)):
        a, ta = expr(e.left, env)
        b, tb = expr(e.right, env)
        if ta != 'Z' or tb != 'Z':
            raise Untranslatable(e, 'arithmetic on non-integers')
        return '(%s %s %s)' % (a, '-' if isinstance(e.op, ast.Sub) else '+', b), 'Z'
    if isinstance(e, ast.Subscript):
        if (isinstance(e.value, ast.Name) and e.value.id in env.nn and isinstance(e.slice, ast.Constant)
                and e.slice.value in (0, 1) and type(e.slice.value) is int and isinstance(e.ctx, ast.Load)):
            return '(%s %s)' % ('fst' if e.slice.value == 0 else 'snd', env.nn[e.value.id]), 'Z'
        raise Untranslatable(e, 'subscript not under an `is not None` guard')
    if isinstance(e, ast.Compare):
        nt = none_test(e, env)
        if nt is not None:
            x, is_none_ = nt
            return ('match %s with None => %s | Some _ => %s end'
                    % (x, 'true' if is_none_ else 'false', 'false' if is_none_ else 'true')), 'bool'
        if len(e.ops) != 1:
            raise Untranslatable(e, 'chained comparison')
        a, ta = expr(e.left, env)
        b, tb = expr(e.comparators[0], env)
        if ta != 'Z' or tb != 'Z':
            raise Untranslatable(e, 'comparison of non-integers')
        op = e.ops[0]
        if type(op) in CMP:
            return '(%s %s %s)' % (a, CMP[type(op)], b), 'bool'
        if isinstance(op, ast.NotEq):
            return '(negb (%s =? %s))' % (a, b), 'bool'
        raise Untranslatable(e, 'comparison operator')
    if isinstance(e, ast.UnaryOp) and isinstance(e.op, ast.Not):
        a, ta = expr(e.operand, env)
        if ta != 'bool':
            raise Untranslatable(e, '`not` of a non-boolean')
        return '(negb %s)' % a, 'bool'
    if isinstance(e, ast.BoolOp):
        return boolop(e, list(e.values), env), 'bool'
    raise Untranslatable(e, type(e).__name__)


def boolop(e, values, env):
    is_and = isinstance(e.op, ast.And)
    if len(values) == 1:
        a, ta = expr(values[0], env)
        if ta != 'bool':
            raise Untranslatable(values[0], 'and/or of a non-boolean')
        return a
    head = values[0]
    nt = none_test(head, env) if isinstance(head, ast.Compare) else None
    if nt is not None and nt[1] != is_and:
        # `X is not None and R`  /  `X is None or R` : R is evaluated only when X is not None
        x = nt[0]
        env2 = env.copy()
        env2.nn[x] = x + '_v'
        r = boolop(e, values[1:], env2)
        if is_and:
            return '(match %s with Some %s_v => %s | None => false end)' % (x, x, r)
        return '(match %s with None => true | Some %s_v => %s end)' % (x, x, r)
    a, ta = expr(head, env)
    if ta != 'bool':
        raise Untranslatable(head, 'and/or of a non-boolean')
    r = boolop(e, values[1:], env)
    return '(%s %s %s)' % (a, '&&' if is_and else '||', r)


def has_jump(stmts):
    for s in stmts:
        for n in ast.walk(s):
            if isinstance(n, (ast.Return, ast.Continue, ast.Break, ast.Raise, ast.For, ast.While, ast.Try,
                              ast.Delete, ast.With)):
                return True
            # d[k] load can raise KeyError
            if isinstance(n, ast.Subscript) and is_self_attr(n.value, '__locks') and isinstance(n.ctx, ast.Load):
                return True
    return False


def assigned(stmts):
    """variables (and 'locks') a jump-free block assigns"""
    out = []
    for s in stmts:
        if isinstance(s, ast.Assign):
            if len(s.targets) != 1:
                raise Untranslatable(s, 'multiple assignment')
            t = s.targets[0]
            if isinstance(t, ast.Name):
                out.append(t.id)
            elif isinstance(t, ast.Subscript) and is_self_attr(t.value, '__locks'):
                out.append('locks')
            else:
                raise Untranslatable(s, 'assignment target')
        elif isinstance(s, ast.If):
            if s.orelse:
                raise Untranslatable(s, 'else branch')
            out += assigned(s.body)
        else:
            raise Untranslatable(s, 'statement inside a non-returning if')
    res = []
    for v in out:
        if v not in res:
            res.append(v)
    return res


def tup(vs):
    return vs[0] if len(vs) == 1 else '(' + ', '.join(vs) + ')'


def pat(vs):
    return vs[0] if len(vs) == 1 else "'(" + ', '.join(vs) + ')'


def ind(text, n):
    pad = ' ' * n
    return '\n'.join(pad + l if l else l for l in text.split('\n'))


def check_name(node, name):
    if name in RESERVED or name.endswith('_v') or not name.isidentifier() or name.startswith('_'):
        raise Untranslatable(node, 'variable name %r' % name)


def key_expr(k, env):
    a, ta = expr(k, env)
    if ta != 'Z':
        raise Untranslatable(k, 'dict key')
    return a


def block(stmts, env, end, mode):
    """stmts followed by falling off the end (= `end`).  mode: 'func' | 'loop' | 'join'."""
    if not stmts:
        return end
    s, rest = stmts[0], stmts[1:]
    if isinstance(s, ast.Return):
        if mode != 'func' or rest:
            raise Untranslatable(s, 'return here')
        if s.value is None or is_none(s.value):
            return 'Ret locks PyNone'
        if isinstance(s.value, ast.Constant) and (s.value.value is True or s.value.value is False):
            return 'Ret locks (PyBool %s)' % ('true' if s.value.value else 'false')
        raise Untranslatable(s, 'returned value')
    if isinstance(s, ast.Continue):
        if mode != 'loop' or rest:
            raise Untranslatable(s, 'continue here')
        return 'Next locks'
    if isinstance(s, ast.Assign):
        if len(s.targets) != 1:
            raise Untranslatable(s, 'multiple assignment')
        t, v = s.targets[0], s.value
        # X = self.__locks.get(K, None)
        if (isinstance(t, ast.Name) and isinstance(v, ast.Call) and isinstance(v.func, ast.Attribute)
                and v.func.attr == 'get' and is_self_attr(v.func.value, '__locks') and len(v.args) == 2
                and not v.keywords and is_none(v.args[1])):
            check_name(s, t.id)
            if env.types.get(t.id, 'opt') != 'opt':
                raise Untranslatable(s, 'variable changes type')
            k = key_expr(v.args[0], env)
            env2 = env.copy()
            env2.types[t.id] = 'opt'
            env2.nn.pop(t.id, None)
            return 'let %s := tget locks %s in\n%s' % (t.id, k, block(rest, env2, end, mode))
        # X = None
        if isinstance(t, ast.Name) and is_none(v):
            if env.types.get(t.id) != 'opt':
                raise Untranslatable(s, 'None assigned to a non-optional variable')
            env2 = env.copy()
            env2.nn.pop(t.id, None)
            return 'let %s := None in\n%s' % (t.id, block(rest, env2, end, mode))
        # A, B = self.__locks[K]
        if (isinstance(t, ast.Tuple) and len(t.elts) == 2 and all(isinstance(x, ast.Name) for x in t.elts)
                and isinstance(v, ast.Subscript) and is_self_attr(v.value, '__locks')):
            if mode == 'join':
                raise Untranslatable(s, 'dict lookup that can raise inside a non-returning if')
            a, b = t.elts[0].id, t.elts[1].id
            check_name(s, a)
            check_name(s, b)
            if a == b or a in env.types or b in env.types:
                raise Untranslatable(s, 'unpacking into an existing variable')
            k = key_expr(v.slice, env)
            env2 = env.copy()
            env2.types[a] = 'Z'
            env2.types[b] = 'Z'
            raise_ = 'Raise locks' if mode == 'func' else 'Abort locks'
            return ('match tget locks %s with\n| None => %s\n| Some (%s, %s) =>\n%s\nend'
                    % (k, raise_, a, b, ind(block(rest, env2, end, mode), 2)))
        # self.__locks[K] = (E1, E2)
        if (isinstance(t, ast.Subscript) and is_self_attr(t.value, '__locks') and isinstance(v, ast.Tuple)
                and len(v.elts) == 2):
            k = key_expr(t.slice, env)
            e1 = key_expr(v.elts[0], env)
            e2 = key_expr(v.elts[1], env)
            return 'let locks := tset locks %s (%s, %s) in\n%s' % (k, e1, e2, block(rest, env, end, mode))
        raise Untranslatable(s, 'assignment')
    if isinstance(s, ast.Delete):
        if len(s.targets) != 1 or mode == 'join':
            raise Untranslatable(s, 'del here')
        t = s.targets[0]
        if not (isinstance(t, ast.Subscript) and is_self_attr(t.value, '__locks')):
            raise Untranslatable(s, 'del target')
        k = key_expr(t.slice, env)
        raise_ = 'Raise locks' if mode == 'func' else 'Abort locks'
        return ('match tget locks %s with\n| None => %s\n| Some _ =>\n  let locks := tdel locks %s in\n%s\nend'
                % (k, raise_, k, ind(block(rest, env, end, mode), 2)))
    if isinstance(s, ast.If):
        if s.orelse:
            raise Untranslatable(s, 'else branch')
        terminal = isinstance(s.body[-1], (ast.Return, ast.Continue))
        nt = none_test(s.test, env) if isinstance(s.test, ast.Compare) else None
        env_then = env.copy()
        if nt is not None and not nt[1]:
            env_then.nn[nt[0]] = nt[0] + '_v'

        def wrap(then, els):
            if nt is not None:
                x, isnone = nt
                if isnone:
                    return 'match %s with\n| None =>\n%s\n| Some _ =>\n%s\nend' % (x, ind(then, 2), ind(els, 2))
                return 'match %s with\n| Some %s_v =>\n%s\n| None =>\n%s\nend' % (x, x, ind(then, 2), ind(els, 2))
            c, tc = expr(s.test, env)
            if tc != 'bool':
                raise Untranslatable(s, 'condition is not a boolean')
            return 'if %s\nthen\n%s\nelse\n%s' % (c, ind(then, 2), ind(els, 2))

        if terminal:
            if mode == 'join':
                raise Untranslatable(s, 'return/continue inside a non-returning if')
            then = block(s.body, env_then, end, mode)
            return wrap(then, block(rest, env, end, mode))
        if has_jump(s.body):
            # the body may return / continue / raise KeyError on some paths and fall through on others
            # (nested ifs ending in `return`, `del d[k]`): the remainder of the block is the
            # continuation of both branches (it is translated twice; the methods are tiny)
            if mode == 'join':
                raise Untranslatable(s, 'return/continue/del inside a non-returning if')
            for n in s.body:
                for m in ast.walk(n):
                    if isinstance(m, (ast.For, ast.While, ast.Try, ast.With, ast.Raise, ast.Break)):
                        raise Untranslatable(m, 'loop/try/raise inside an if')
            then = block(list(s.body) + list(rest), env_then, end, mode)
            return wrap(then, block(rest, env, end, mode))
        vs = assigned(s.body)
        if not vs:
            raise Untranslatable(s, 'if without effect')
        for v in vs:
            if v != 'locks' and v not in env.types:
                raise Untranslatable(s, 'variable %s first assigned inside an if' % v)
        then = block(s.body, env_then, tup(vs), 'join')
        env2 = env.copy()
        for v in vs:
            env2.nn.pop(v, None)
        return 'let %s :=\n%s in\n%s' % (pat(vs), ind(wrap(then, tup(vs)), 2), block(rest, env2, end, mode))
    if isinstance(s, ast.For):
        if mode != 'func' or s.orelse:
            raise Untranslatable(s, 'loop here')
        it = s.iter
        if not (isinstance(s.target, ast.Name) and isinstance(it, ast.Call) and isinstance(it.func, ast.Name)
                and it.func.id == 'list' and len(it.args) == 1 and not it.keywords
                and is_self_attr(it.args[0], '__locks')):
            raise Untranslatable(s, 'only `for K in list(self.__locks)` is known')
        k = s.target.id
        check_name(s, k)
        if k in env.types:
            raise Untranslatable(s, 'loop variable shadows')
        for n in ast.walk(s):
            if isinstance(n, ast.Break):
                raise Untranslatable(n, 'break')
        env_b = env.copy()
        env_b.types[k] = 'Z'
        body = block(s.body, env_b, 'Next locks', 'loop')
        # variables of the loop body are not visible after the loop (env is unchanged)
        return ('match for_keys (tkeys locks) (fun %s locks =>\n%s) locks with\n| Abort locks => Raise locks\n| Next locks =>\n%s\nend'
                % (k, ind(body, 4), ind(block(rest, env, end, mode), 2)))
    raise Untranslatable(s, type(s).__name__)


def method(fn):
    name = fn.name
    nargs, want_repl = EXPECTED[name]
    a = fn.args
    if (a.vararg or a.kwarg or a.kwonlyargs or a.defaults or a.kw_defaults or getattr(a, 'posonlyargs', [])
            or len(a.args) != nargs + 1 or a.args[0].arg != 'self'):
        raise Untranslatable(fn, 'signature of %s' % name)
    decs = fn.decorator_list
    is_repl = len(decs) == 1 and isinstance(decs[0], ast.Name) and decs[0].id == 'replicated'
    if decs and not is_repl:
        raise Untranslatable(fn, 'decorator')
    if is_repl != want_repl:
        raise Untranslatable(fn, '%s must %sbe @replicated' % (name, '' if want_repl else 'not '))
    env = Env()
    args = [x.arg for x in a.args[1:]]
    for x in args:
        check_name(fn, x)
        env.types[x] = 'Z'
    if len(set(args)) != len(args):
        raise Untranslatable(fn, 'duplicate argument')
    body = list(fn.body)
    if body and isinstance(body[0], ast.Expr) and isinstance(body[0].value, ast.Constant) and isinstance(body[0].value.value, str):
        body = body[1:]   # docstring
    text = block(body, env, 'Ret locks PyNone', 'func')
    return ('(* batteries.py:%d  %s%s(self, %s) *)\nDefinition %s (autoUnlockTime : Z) (locks : table) (%s : Z) : res :=\n%s.\n'
            % (fn.lineno, '@replicated ' if is_repl else '', name, ', '.join(args), name, ' '.join(args), ind(text, 2)))


def check_init(fn):
    """__init__(self, autoUnlockTime): super(..).__init__(); self.__locks = {}; self.__autoUnlockTime = autoUnlockTime"""
    a = fn.args
    if [x.arg for x in a.args] != ['self', 'autoUnlockTime'] or a.vararg or a.kwarg or a.defaults or fn.decorator_list:
        raise Untranslatable(fn, '__init__ signature')
    b = fn.body
    if len(b) != 3:
        raise Untranslatable(fn, '__init__ body')
    s0, s1, s2 = b
    ok0 = (isinstance(s0, ast.Expr) and isinstance(s0.value, ast.Call) and isinstance(s0.value.func, ast.Attribute)
           and s0.value.func.attr == '__init__' and isinstance(s0.value.func.value, ast.Call)
           and isinstance(s0.value.func.value.func, ast.Name) and s0.value.func.value.func.id == 'super'
           and not s0.value.args and not s0.value.keywords)
    if not ok0:
        raise Untranslatable(s0, '__init__ super call')
    ok1 = (isinstance(s1, ast.Assign) and len(s1.targets) == 1 and is_self_attr(s1.targets[0], '__locks')
           and isinstance(s1.value, ast.Dict) and not s1.value.keys)
    if not ok1:
        raise Untranslatable(s1, 'initial lock table')
    ok2 = (isinstance(s2, ast.Assign) and len(s2.targets) == 1 and is_self_attr(s2.targets[0], '__autoUnlockTime')
           and isinstance(s2.value, ast.Name) and s2.value.id == 'autoUnlockTime')
    if not ok2:
        raise Untranslatable(s2, 'autoUnlockTime field')


HEADER = '''(* GENERATED by /verif/translate/lock2v.py from pysyncobj/batteries.py (class _ReplLockManagerImpl).
   DO NOT EDIT: the file is regenerated from /repo's working tree by every `./check C16` run.
   locks = self.__locks, autoUnlockTime = self.__autoUnlockTime; Raise / Abort = KeyError escaping. *)
From Coq Require Import ZArith List Bool.
From PSO Require Import Lock.Base.
Import ListNotations.
Open Scope Z_scope.

(* batteries.py:%d  self.__locks = {} *)
Definition init_locks : table := tempty.

'''


def translate(src_text):
    tree = ast.parse(src_text)
    cls = [n for n in tree.body if isinstance(n, ast.ClassDef) and n.name == CLASS]
    if len(cls) != 1:
        raise Untranslatable(tree.body[0] if tree.body else tree, 'class %s not found exactly once' % CLASS)
    cls = cls[0]
    if len(cls.bases) != 1 or not (isinstance(cls.bases[0], ast.Name) and cls.bases[0].id == 'SyncObjConsumer') or cls.keywords or cls.decorator_list:
        raise Untranslatable(cls, 'class header')
    methods = {}
    init = None
    for n in cls.body:
        if isinstance(n, ast.Expr) and isinstance(n.value, ast.Constant) and isinstance(n.value.value, str):
            continue
        if not isinstance(n, ast.FunctionDef):
            raise Untranslatable(n, 'class-level statement')
        if n.name == '__init__':
            init = n
        elif n.name in EXPECTED and n.name not in methods:
            methods[n.name] = n
        else:
            # an extra (or duplicated) method would be a command the theorems do not quantify over
            raise Untranslatable(n, 'unknown method %s' % n.name)
    if init is None:
        raise Untranslatable(cls, 'no __init__')
    for m in ORDER:
        if m not in methods:
            raise Untranslatable(cls, 'method %s missing' % m)
    check_init(init)
    out = HEADER % init.body[1].lineno
    for m in ORDER:
        out += method(methods[m]) + '\n'
    return out


def run(src=SRC, out=OUT):
    """-> (ok, message, changed)"""
    sys.path.insert(0, VERIF)
    from vlib.coq import write_if_changed
    try:
        text = translate(open(src).read())
    except Untranslatable as e:
        return False, str(e), False
    except SyntaxError as e:
        return False, 'untranslatable construct at batteries.py:%s (syntax error)' % e.lineno, False
    changed = write_if_changed(out, text)
    return True, 'translated %s -> %s%s' % (src, out, ' (changed)' if changed else ''), changed


if __name__ == '__main__':
    ok, msg, _ = run(*(sys.argv[1:3]))
    print(msg)
    sys.exit(0 if ok else 2)
