#!/usr/bin/env python3
"""Fail-closed Python-ast -> Gallina translator for the six container batteries of
pysyncobj/batteries.py (ReplCounter, ReplList, ReplDict, ReplSet, ReplQueue, ReplPriorityQueue).

Every method (replicated or plain) becomes one Gallina function

    <Class>_<method> (orc : Z) (args : list pyval) : M <Class>_state pyval

built from the primitives of coq/Batteries/PySpec.v; __init__ gives <Class>_init; the decorators
give the method table (name, required positional arguments, defaults, replicated?, ver).

The translator knows ONE shape per construct it accepts and raises Untranslatable for anything
else; the command line exits non-zero printing "untranslatable construct at batteries.py:LINE".

    python translate/py2v.py [--src /repo/pysyncobj/batteries.py] [--out coq/Batteries/Gen.v] [--table t.json]
"""
import ast
import json
import os
import sys

CLASSES = ['ReplCounter', 'ReplList', 'ReplDict', 'ReplSet', 'ReplQueue', 'ReplPriorityQueue']

# builtin methods that may be called on an attribute of self
BMETH = {'append', 'extend', 'insert', 'remove', 'pop', 'sort', 'index', 'count', 'setdefault', 'update',
         'clear', 'get', 'keys', 'values', 'items', 'add', 'discard', 'popleft'}
ISINSTANCE_TYPES = {'list': 'TList', 'dict': 'TDict', 'set': 'TSet'}
CMP = {ast.Gt: 'py_gt', ast.GtE: 'py_ge', ast.Lt: 'py_lt', ast.LtE: 'py_le', ast.Eq: 'py_eq'}


class Untranslatable(Exception):
    def __init__(self, node, why=''):
        self.line = getattr(node, 'lineno', 0)
        self.why = why
        Exception.__init__(self, 'untranslatable construct at batteries.py:%d%s'
                           % (self.line, (' (' + why + ')') if why else ''))


def const_term(node):
    """Gallina pyval term of a constant (None / bool / int), else None."""
    if isinstance(node, ast.Constant):
        v = node.value
        if v is None:
            return 'VNone'
        if v is True:
            return '(VBool true)'
        if v is False:
            return '(VBool false)'
        if type(v) is int:
            return '(VInt (%d))' % v
    if isinstance(node, ast.UnaryOp) and isinstance(node.op, ast.USub) and isinstance(node.operand, ast.Constant) \
            and type(node.operand.value) is int:
        return '(VInt (%d))' % (-node.operand.value)
    return None


class ClassTr(object):
    def __init__(self, cls):
        self.cls = cls
        self.name = cls.name
        self.fields = []          # python-private names without the leading __, in __init__ order
        self.counter = 0
        self.params = []
        self.fields_final = False

    # ---- names --------------------------------------------------------------------------------
    def fget(self, f):
        return '%s_f_%s' % (self.name, f)

    def fset(self, f):
        return '%s_set_%s' % (self.name, f)

    def fresh(self):
        self.counter += 1
        return 'v%d' % self.counter

    def self_field(self, node, ctx=None):
        """node is self.__x  ->  'x' ; else None"""
        if isinstance(node, ast.Attribute) and isinstance(node.value, ast.Name) and node.value.id == 'self' \
                and node.attr.startswith('__') and not node.attr.endswith('__'):
            if ctx is not None and not isinstance(node.ctx, ctx):
                raise Untranslatable(node, 'attribute context')
            f = node.attr[2:]
            if self.fields_final and f not in self.fields:
                raise Untranslatable(node, 'attribute %s is not assigned in __init__' % node.attr)
            return f
        return None

    # ---- expressions --------------------------------------------------------------------------
    def pure(self, e):
        """Gallina pyval term for an expression without effects, or None."""
        c = const_term(e)
        if c is not None:
            return c
        if isinstance(e, ast.Name) and isinstance(e.ctx, ast.Load):
            if e.id in self.params:
                return 'a_' + e.id
            raise Untranslatable(e, 'name %s' % e.id)
        if isinstance(e, ast.List) and not e.elts:
            return '(VList [])'
        if isinstance(e, ast.Dict) and not e.keys:
            return '(VDict [])'
        if isinstance(e, ast.Call) and not e.args and not e.keywords:
            if isinstance(e.func, ast.Name) and e.func.id == 'int':
                return '(VInt 0)'
            if isinstance(e.func, ast.Name) and e.func.id == 'set':
                return '(VSet [])'
            if isinstance(e.func, ast.Attribute) and isinstance(e.func.value, ast.Name) \
                    and e.func.value.id == 'collections' and e.func.attr == 'deque':
                return '(VDeque [])'
        if isinstance(e, ast.Compare) and len(e.ops) == 1 and isinstance(e.ops[0], (ast.Is, ast.IsNot)) \
                and const_term(e.comparators[0]) == 'VNone':
            p = self.pure(e.left)
            if p is not None:
                t = '(py_is_none %s)' % p
                if isinstance(e.ops[0], ast.IsNot):
                    t = '(negb %s)' % t
                return '(VBool %s)' % t
        if isinstance(e, ast.UnaryOp) and isinstance(e.op, ast.Not):
            p = self.pure(e.operand)
            if p is not None:
                return '(VBool (negb (py_truth %s)))' % p
        return None

    def pure_arg(self, e):
        p = self.pure(e)
        if p is None:
            raise Untranslatable(e, 'argument of a call must be a parameter or a constant')
        return p

    def ev(self, e, k):
        """Evaluate e, continue with k(term-of-its-value) : M-term.  Returns an M-term."""
        p = self.pure(e)
        if p is not None:
            return k(p)
        v = self.fresh()
        return 'bind (%s) (fun %s => %s)' % (self.ev_m(e), v, k(v))

    def ev_m(self, e):
        """M S pyval term computing e."""
        p = self.pure(e)
        if p is not None:
            return 'ret %s' % p
        # self.__x
        f = self.self_field(e, ast.Load)
        if f is not None:
            return 'get_field %s' % self.fget(f)
        if isinstance(e, ast.Call):
            fn = e.func
            # len(e)
            if isinstance(fn, ast.Name) and fn.id == 'len' and len(e.args) == 1 and not e.keywords:
                return self.ev(e.args[0], lambda t: 'lift_p (py_len %s)' % t)
            # heapq.heappush(self.__x, item) / heapq.heappop(self.__x)
            if isinstance(fn, ast.Attribute) and isinstance(fn.value, ast.Name) and fn.value.id == 'heapq' \
                    and not e.keywords:
                if fn.attr == 'heappush' and len(e.args) == 2:
                    f = self.self_field(e.args[0], ast.Load)
                    if f is None:
                        raise Untranslatable(e, 'heap must be an attribute of self')
                    return 'on_field %s %s (fun o => py_heappush o %s)' % (self.fget(f), self.fset(f), self.pure_arg(e.args[1]))
                if fn.attr == 'heappop' and len(e.args) == 1:
                    f = self.self_field(e.args[0], ast.Load)
                    if f is None:
                        raise Untranslatable(e, 'heap must be an attribute of self')
                    return 'on_field %s %s (fun o => py_heappop o)' % (self.fget(f), self.fset(f))
                raise Untranslatable(e, 'heapq call')
            # self.__x.meth(args, [reverse=e])
            if isinstance(fn, ast.Attribute):
                f = self.self_field(fn.value, ast.Load)
                if f is not None and fn.attr in BMETH:
                    args = [self.pure_arg(a) for a in e.args]
                    kw = 'None'
                    if e.keywords:
                        if len(e.keywords) != 1 or e.keywords[0].arg != 'reverse' or fn.attr != 'sort':
                            raise Untranslatable(e, 'keyword argument')
                        kw = '(Some %s)' % self.pure_arg(e.keywords[0].value)
                    return 'on_field %s %s (fun o => py_method M_%s o [%s] %s orc)' % (
                        self.fget(f), self.fset(f), fn.attr, '; '.join(args), kw)
            raise Untranslatable(e, 'call')
        # self.__x[idx]
        if isinstance(e, ast.Subscript) and isinstance(e.ctx, ast.Load):
            f = self.self_field(e.value, ast.Load)
            if f is None or isinstance(e.slice, ast.Slice):
                raise Untranslatable(e, 'subscript')
            return 'on_field %s %s (fun o => py_getitem o %s)' % (self.fget(f), self.fset(f), self.pure_arg(e.slice))
        if isinstance(e, ast.Compare) and len(e.ops) == 1:
            o = e.ops[0]
            if type(o) in CMP:
                return self.ev(e.left, lambda a: self.ev(e.comparators[0], lambda b: 'lift_p (%s %s %s)' % (CMP[type(o)], a, b)))
            if isinstance(o, ast.In):
                f = self.self_field(e.comparators[0], ast.Load)
                if f is None:
                    raise Untranslatable(e, '"in" needs an attribute of self on the right')
                return 'on_field %s %s (fun o => py_contains o %s)' % (self.fget(f), self.fset(f), self.pure_arg(e.left))
            raise Untranslatable(e, 'comparison')
        if isinstance(e, ast.BoolOp) and isinstance(e.op, (ast.And, ast.Or)):
            # a and b: value of a if a is false, else value of b (left to right, short circuit)
            def chain(vals):
                if len(vals) == 1:
                    return self.ev_m(vals[0])
                first, rest = vals[0], vals[1:]
                if isinstance(e.op, ast.And):
                    return self.ev(first, lambda t: 'if py_truth %s then %s else ret %s' % (t, chain(rest), t))
                return self.ev(first, lambda t: 'if py_truth %s then ret %s else %s' % (t, t, chain(rest)))
            return chain(e.values)
        if isinstance(e, ast.UnaryOp) and isinstance(e.op, ast.Not):
            return self.ev(e.operand, lambda t: 'ret (VBool (negb (py_truth %s)))' % t)
        raise Untranslatable(e, type(e).__name__)

    # ---- statements ---------------------------------------------------------------------------
    @staticmethod
    def is_doc(s):
        return isinstance(s, ast.Expr) and isinstance(s.value, ast.Constant) and isinstance(s.value.value, str)

    def seq(self, body, rest):
        if body and isinstance(body[-1], ast.Return):
            return list(body)
        return list(body) + list(rest)

    def stmts(self, ss):
        """M S pyval term for a statement list (falling off the end returns None)."""
        if not ss:
            return 'ret VNone'
        s, rest = ss[0], ss[1:]
        if self.is_doc(s):
            return self.stmts(rest)
        if isinstance(s, ast.Return):
            if rest:
                raise Untranslatable(rest[0], 'statement after return')
            if s.value is None:
                return 'ret VNone'
            return self.ev_m(s.value)
        if isinstance(s, ast.Expr):
            if not isinstance(s.value, ast.Call):
                raise Untranslatable(s, 'expression statement')
            return 'bind (%s) (fun _ => %s)' % (self.ev_m(s.value), self.stmts(rest))
        if isinstance(s, ast.Assign) and len(s.targets) == 1:
            t = s.targets[0]
            f = self.self_field(t, ast.Store)
            if f is not None:
                return self.ev(s.value, lambda v: 'bind (set_field %s %s) (fun _ => %s)' % (self.fset(f), v, self.stmts(rest)))
            if isinstance(t, ast.Subscript) and not isinstance(t.slice, ast.Slice):
                f = self.self_field(t.value, ast.Load)
                if f is not None:
                    val = self.pure_arg(s.value)
                    idx = self.pure_arg(t.slice)
                    return 'bind (on_field %s %s (fun o => py_setitem o %s %s)) (fun _ => %s)' % (
                        self.fget(f), self.fset(f), idx, val, self.stmts(rest))
            raise Untranslatable(s, 'assignment target')
        if isinstance(s, ast.AugAssign) and isinstance(s.op, (ast.Add, ast.Sub)):
            f = self.self_field(s.target, ast.Store)
            if f is None:
                raise Untranslatable(s, 'augmented assignment target')
            opn = 'py_add' if isinstance(s.op, ast.Add) else 'py_sub'
            a = self.fresh()
            c = self.fresh()
            return 'bind (get_field %s) (fun %s => %s)' % (
                self.fget(f), a,
                self.ev(s.value, lambda b: 'bind (lift_p (%s %s %s)) (fun %s => bind (set_field %s %s) (fun _ => %s))' % (
                    opn, a, b, c, self.fset(f), c, self.stmts(rest))))
        if isinstance(s, ast.If):
            th = self.stmts(self.seq(s.body, rest))
            el = self.stmts(self.seq(s.orelse, rest))
            p = self.pure(s.test)
            if p is not None:
                return 'if py_truth %s then %s else %s' % (p, th, el)
            b = self.fresh()
            return 'bind (truth (%s)) (fun %s : bool => if %s then %s else %s)' % (self.ev_m(s.test), b, b, th, el)
        if isinstance(s, ast.Assert) and s.msg is None:
            t = s.test
            if isinstance(t, ast.Call) and isinstance(t.func, ast.Name) and t.func.id == 'isinstance' and len(t.args) == 2 \
                    and not t.keywords and isinstance(t.args[1], ast.Name) and t.args[1].id in ISINSTANCE_TYPES:
                return 'if py_isinstance %s %s then %s else raise AssertionError' % (
                    self.pure_arg(t.args[0]), ISINSTANCE_TYPES[t.args[1].id], self.stmts(rest))
            raise Untranslatable(s, 'assert')
        if isinstance(s, ast.Try):
            if rest:
                raise Untranslatable(rest[0], 'statement after try')
            if (len(s.body) == 1 and isinstance(s.body[0], ast.Return) and s.body[0].value is not None
                    and len(s.handlers) == 1 and s.handlers[0].type is None and s.handlers[0].name is None
                    and len(s.handlers[0].body) == 1 and isinstance(s.handlers[0].body[0], ast.Return)
                    and s.handlers[0].body[0].value is not None and not s.orelse and not s.finalbody):
                return 'try_except (%s) (%s)' % (self.ev_m(s.body[0].value), self.ev_m(s.handlers[0].body[0].value))
            raise Untranslatable(s, 'try')
        raise Untranslatable(s, type(s).__name__)

    # ---- signature ----------------------------------------------------------------------------
    def signature(self, fn):
        a = fn.args
        if a.vararg or a.kwarg or a.kwonlyargs or a.posonlyargs or getattr(a, 'kw_defaults', None):
            raise Untranslatable(fn, 'signature')
        if not a.args or a.args[0].arg != 'self':
            raise Untranslatable(fn, 'first parameter must be self')
        names = [x.arg for x in a.args[1:]]
        defaults = []
        for d in a.defaults:
            c = const_term(d)
            if c is None:
                raise Untranslatable(d, 'default value')
            defaults.append((c, d.value if isinstance(d, ast.Constant) else -d.operand.value))
        if len(defaults) > len(names):
            raise Untranslatable(fn, 'signature')
        return names, defaults

    def decorators(self, fn):
        replicated, ver = False, 0
        for d in fn.decorator_list:
            if isinstance(d, ast.Name) and d.id == 'replicated' and not replicated:
                replicated = True
            elif (isinstance(d, ast.Call) and isinstance(d.func, ast.Name) and d.func.id == 'replicated' and not d.args
                  and len(d.keywords) == 1 and d.keywords[0].arg == 'ver' and isinstance(d.keywords[0].value, ast.Constant)
                  and type(d.keywords[0].value.value) is int and not replicated):
                replicated, ver = True, d.keywords[0].value.value
            else:
                raise Untranslatable(d, 'decorator')
        return replicated, ver

    def arg_match(self, names, defaults, call):
        """match args with ... end  binding positional arguments and defaults"""
        req = len(names) - len(defaults)
        lines = []
        for n in range(req, len(names) + 1):
            pat = '[' + '; '.join('a_' + x for x in names[:n]) + ']'
            vals = ['a_' + x for x in names[:n]] + [defaults[i - req][0] for i in range(n, len(names))]
            lines.append('  | %s => %s' % (pat, call(vals)))
        return lines

    # ---- the class ----------------------------------------------------------------------------
    def translate(self):
        cls = self.cls
        C = self.name
        if len(cls.bases) != 1 or not isinstance(cls.bases[0], ast.Name) or cls.bases[0].id != 'SyncObjConsumer':
            raise Untranslatable(cls, 'base class')
        if cls.keywords or cls.decorator_list:
            raise Untranslatable(cls, 'class header')
        fns = []
        for s in cls.body:
            if self.is_doc(s):
                continue
            if not isinstance(s, ast.FunctionDef):
                raise Untranslatable(s, 'class body')
            fns.append(s)
        inits = [f for f in fns if f.name == '__init__']
        if len(inits) != 1:
            raise Untranslatable(cls, '__init__')
        names_seen = set()
        for f in fns:
            if f.name in names_seen:
                raise Untranslatable(f, 'method defined twice')
            names_seen.add(f.name)
        out = ['(* ---- class %s (batteries.py:%d) ---- *)' % (C, cls.lineno)]
        # __init__
        init = inits[0]
        if init.decorator_list:
            raise Untranslatable(init, 'decorator on __init__')
        self.fields_final = False
        inames, idefaults = self.signature(init)
        self.params = inames
        body = [s for s in init.body if not self.is_doc(s)]
        if not body:
            raise Untranslatable(init, '__init__ body')
        s0 = body[0]
        ok = (isinstance(s0, ast.Expr) and isinstance(s0.value, ast.Call) and not s0.value.args and not s0.value.keywords
              and isinstance(s0.value.func, ast.Attribute) and s0.value.func.attr == '__init__'
              and isinstance(s0.value.func.value, ast.Call) and isinstance(s0.value.func.value.func, ast.Name)
              and s0.value.func.value.func.id == 'super' and len(s0.value.func.value.args) == 2
              and isinstance(s0.value.func.value.args[0], ast.Name) and s0.value.func.value.args[0].id == C
              and isinstance(s0.value.func.value.args[1], ast.Name) and s0.value.func.value.args[1].id == 'self')
        if not ok:
            raise Untranslatable(s0, '__init__ must start with super(%s, self).__init__()' % C)
        inits_vals = []
        for s in body[1:]:
            if not (isinstance(s, ast.Assign) and len(s.targets) == 1):
                raise Untranslatable(s, '__init__ statement')
            f = self.self_field(s.targets[0], ast.Store)
            if f is None or f in self.fields:
                raise Untranslatable(s, '__init__ assignment')
            p = self.pure(s.value)
            if p is None:
                raise Untranslatable(s.value, '__init__ value')
            self.fields.append(f)
            inits_vals.append(p)
        if not self.fields:
            raise Untranslatable(init, 'no attributes')
        self.fields_final = True
        out.append('Record %s_state := %s_mk { %s }.' % (C, C, '; '.join('%s : pyval' % self.fget(f) for f in self.fields)))
        for i, f in enumerate(self.fields):
            vals = ['v' if j == i else '(%s s)' % self.fget(g) for j, g in enumerate(self.fields)]
            out.append('Definition %s (v : pyval) (s : %s_state) : %s_state := %s_mk %s.' % (self.fset(f), C, C, C, ' '.join(vals)))
        out.append('(* __init__, batteries.py:%d *)' % init.lineno)
        out.append('Definition %s_init_body %s: %s_state := %s_mk %s.' % (
            C, ''.join('(a_%s : pyval) ' % n for n in inames), C, C, ' '.join(inits_vals)))
        out.append('Definition %s_init (args : list pyval) : option %s_state :=\n  match args with' % (C, C))
        out += self.arg_match(inames, idefaults, lambda vals: 'Some (%s_init_body%s)' % (C, ''.join(' ' + v for v in vals)))
        if True:
            out.append('  | _ => None\n  end.')
        table = {'class': C, 'line': cls.lineno, 'fields': ['_%s__%s' % (C, f) for f in self.fields],
                 'init': {'params': inames, 'defaults': [d[1] for d in idefaults]}, 'methods': []}
        # methods
        meths = []
        for fn in fns:
            if fn is init:
                continue
            replicated, ver = self.decorators(fn)
            names, defaults = self.signature(fn)
            self.params = names
            self.counter = 0
            term = self.stmts(fn.body)
            out.append('(* %s%s, batteries.py:%d *)' % ('@replicated ' if replicated else '', fn.name, fn.lineno))
            out.append('Definition %s_%s_body (orc : Z) %s: M %s_state pyval :=\n  %s.' % (
                C, fn.name, ''.join('(a_%s : pyval) ' % n for n in names), C, term))
            out.append('Definition %s_%s (orc : Z) (args : list pyval) : M %s_state pyval :=\n  match args with' % (C, fn.name, C))
            out += self.arg_match(names, defaults, lambda vals: '%s_%s_body orc%s' % (C, fn.name, ''.join(' ' + v for v in vals)))
            out.append('  | _ => raise TypeError\n  end.')
            meths.append((fn.name, len(names) - len(defaults), defaults, replicated, ver))
            table['methods'].append({'name': fn.name, 'params': names, 'required': len(names) - len(defaults),
                                     'defaults': [d[1] for d in defaults], 'replicated': replicated, 'ver': ver,
                                     'line': fn.lineno})
        if not meths:
            raise Untranslatable(cls, 'no methods')
        out.append('Inductive %s_meth := %s.' % (C, ' | '.join('%s_m_%s' % (C, m[0]) for m in meths)))
        out.append('Definition %s_call (m : %s_meth) (orc : Z) (args : list pyval) : M %s_state pyval :=\n  match m with' % (C, C, C))
        for m in meths:
            out.append('  | %s_m_%s => %s_%s orc args' % (C, m[0], C, m[0]))
        out.append('  end.')
        out.append('Definition %s_meths : list %s_meth := [%s].' % (C, C, '; '.join('%s_m_%s' % (C, m[0]) for m in meths)))
        out.append('(* (method, python name, required positional arguments, defaults, replicated?, ver) *)')
        out.append('Definition %s_table : list (%s_meth * string * nat * list pyval * bool * Z) :=\n  [%s].' % (
            C, C, ';\n   '.join('(%s_m_%s, "%s"%%string, %d%%nat, [%s], %s, %d)' % (
                C, m[0], m[0], m[1], '; '.join(d[0] for d in m[2]), 'true' if m[3] else 'false', m[4]) for m in meths)))
        out.append('Definition %s_replicated (m : %s_meth) : bool :=\n  match m with %s end.' % (
            C, C, ' | '.join('%s_m_%s => %s' % (C, m[0], 'true' if m[3] else 'false') for m in meths)))
        out.append('Definition %s_fields (s : %s_state) : list pyval := [%s].' % (C, C, '; '.join('%s s' % self.fget(f) for f in self.fields)))
        out.append('(* SyncObjConsumer._serialize / _deserialize: the instance attributes assigned after the base __init__ *)')
        out.append('Definition %s_serialize (s : %s_state) : list (string * pyval) :=\n  [%s].' % (
            C, C, '; '.join('("_%s__%s"%%string, %s s)' % (C, f, self.fget(f)) for f in self.fields)))
        out.append('Definition %s_deserialize (d : list (string * pyval)) (s : %s_state) : %s_state :=\n  %s_mk %s.' % (
            C, C, C, C, ' '.join('(assoc_or "_%s__%s" d (%s s))' % (C, f, self.fget(f)) for f in self.fields)))
        defs = ['%s_init_body' % C, '%s_init' % C, '%s_call' % C, '%s_fields' % C, '%s_serialize' % C, '%s_deserialize' % C,
                '%s_replicated' % C]
        defs += [self.fset(f) for f in self.fields]
        for m in meths:
            defs += ['%s_%s' % (C, m[0]), '%s_%s_body' % (C, m[0])]
        out.append('#[global] Hint Unfold %s : pygen.' % ' '.join(defs))
        out.append('Definition B_%s : battery :=\n  {| b_state := %s_state; b_meth := %s_meth; b_init := %s_init; b_call := %s_call;\n'
                   '     b_fields := %s_fields; b_ser := %s_serialize; b_deser := %s_deserialize |}.' % (C, C, C, C, C, C, C, C))
        return '\n'.join(out) + '\n', table


HEADER = '''(* GENERATED by /verif/translate/py2v.py from pysyncobj/batteries.py -- DO NOT EDIT.
   Regenerated on every run of ./check C15; the theorems of Props/C15.v are about this text. *)
From Coq Require Import ZArith String List Bool.
From PSO Require Import Batteries.PySpec.
Import ListNotations.
Open Scope Z_scope.
Create HintDb pygen.

'''


def translate_source(src_text):
    """Returns (Gen.v text, table list).  Raises Untranslatable."""
    tree = ast.parse(src_text)
    classes = {n.name: n for n in tree.body if isinstance(n, ast.ClassDef)}
    for n in tree.body:
        # heapq / collections must be the standard modules: accept only plain imports at module level
        if isinstance(n, (ast.Import, ast.ImportFrom, ast.ClassDef)):
            continue
        if isinstance(n, ast.Expr) and isinstance(n.value, ast.Constant):
            continue
        raise Untranslatable(n, 'module-level statement')
    imported = set()
    for n in tree.body:
        if isinstance(n, ast.Import):
            for a in n.names:
                if a.asname is not None and a.asname != a.name:
                    raise Untranslatable(n, 'import alias')
                imported.add(a.name)
    for need in ('collections', 'heapq'):
        if need not in imported:
            raise Untranslatable(tree.body[0], 'module %s is not imported' % need)
    out = [HEADER]
    tables = []
    for c in CLASSES:
        if c not in classes:
            raise Untranslatable(tree.body[0], 'class %s is missing' % c)
        text, table = ClassTr(classes[c]).translate()
        out.append(text)
        tables.append(table)
    return '\n'.join(out), tables


def failed_text(msg):
    """Gen.v written when the translator rejects the source: it must not compile (fail closed)."""
    return ('(* GENERATED by /verif/translate/py2v.py -- the translator REJECTED pysyncobj/batteries.py:\n   %s *)\n'
            'Definition translator_rejected_batteries_py : True := untranslatable_construct.\n' % msg.replace('*)', '* )'))


def main(argv):
    import argparse
    ap = argparse.ArgumentParser()
    ap.add_argument('--src', default='/repo/pysyncobj/batteries.py')
    ap.add_argument('--out', default=None)
    ap.add_argument('--table', default=None)
    a = ap.parse_args(argv)
    try:
        text, tables = translate_source(open(a.src).read())
    except Untranslatable as e:
        print(str(e))
        return 1
    except SyntaxError as e:
        print('untranslatable construct at batteries.py:%s (syntax error)' % e.lineno)
        return 1
    if a.out:
        sys.path.insert(0, os.path.dirname(os.path.dirname(os.path.abspath(__file__))))
        from vlib import coq
        coq.write_if_changed(a.out, text)
    else:
        sys.stdout.write(text)
    if a.table:
        with open(a.table, 'w') as f:
            json.dump(tables, f, indent=1)
    return 0


if __name__ == '__main__':
    sys.exit(main(sys.argv[1:]))
