#!/bin/bash
# tools/fullpass.sh [tier]  - every claimed property once, on the current tree; prints one line per property
tier=${1:-quick}
cd /verif
mkdir -p .work/fullpass
fail=0
for i in $(seq -w 1 20); do
  p=C$i
  /usr/bin/time -f "%e" -o .work/fullpass/$p.time ./check $p --tier $tier > .work/fullpass/$p.log 2>&1; rc=$?
  v=$(grep -c "^VIOLATION" .work/fullpass/$p.log); k=$(grep -c "^KNOWN-FINDING" .work/fullpass/$p.log)
  echo "$p exit=$rc violations=$v known=$k wall=$(cat .work/fullpass/$p.time)s $(grep -o 'obligations [0-9]*/[0-9]*' .work/fullpass/$p.log | tail -1)"
  [ $rc -ne 0 ] && fail=1
done
exit $fail
