"""tools/scen_debug.py <scenario> [...]: run scripted scenarios on the implementation under the monitors, compare with the
model, print monitor records and diagnose the first divergence."""
import os, sys
sys.path.insert(0, '/verif'); sys.path.insert(0, (os.environ.get('VERIF_REPO') or '/repo'))
from harness import raft_corr as RC, raft_scenarios as SC, raft_debug as DBG
from harness.raft_monitor import Monitor
from vlib import coq

work = '/verif/.work/scendbg'
os.makedirs(work, exist_ok=True)
for name in sys.argv[1:]:
    mon = Monitor()
    rec = SC.run(name, workdir=work, listeners=[mon], keep_obs=True)
    for p in getattr(rec, 'convergence', []):
        for prop in getattr(rec, 'convergence_props', ('C05',)):
            mon.rec(prop, p)
    print('==', name, 'events', len(rec.mevents), 'model_ok', rec.model_ok, 'stats', mon.stats)
    print('   records', mon.records[:6], 'attributed', mon.attributed[:4], 'after_memory_loss', len(mon.after_memory_loss))
    if not rec.model_ok:
        continue
    d, c = RC.v_case('sc', rec.cfg, rec.mevents, rec.digests)
    path = os.path.join(work, 'case_%s.v' % name)
    with open(path, 'w') as f:
        f.write(RC.HEADER); f.write(d); f.write('Eval vm_compute in [%s].\n' % c)
    rc, out, dt = coq.coqc_eval([path], work)[path]
    if rc != 0:
        print(out[-2000:]); continue
    v = coq.parse_coq_value(out)[0]
    print('   model: first diverging step', v, '(%.1fs)' % dt)
    if v is not None:
        DBG.diagnose(rec, 'sc', v, work)
