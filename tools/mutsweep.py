#!/venv/bin/python
"""tools/mutsweep.py - how sensitive is the tie between the Raft model and the source?

Generates small syntactic mutants of /repo/pysyncobj/{syncobj,serializer}.py (comparison flips, +-1 on integer
constants, and<->or, dropped `not`, min<->max, True<->False, if-condition forced, single statements deleted), restricted
to statements that the compared traces of the quick plan execute, and runs every mutant on the implementation side of
the Raft correspondence: the scripted scenarios + a sample of the random generators, under the monitors.  Because the
model agrees with the unchanged code on every step of those traces (zero divergences), a mutant is seen by the
correspondence exactly when its per-step digests differ from the unchanged code's on some trace - no Coq run needed.

A mutant is   killed-by-monitor   when a property monitor reports a record (a concrete failing input),
              killed-by-correspondence when only the digests differ (reported by the checks as no-failing-input-found),
              crashed             when the harness itself fails (counted as a divergence by the checks),
              survived            otherwise (equivalent mutant, or a blind spot: look at it).
This is a measurement and a search aid for blind spots, not part of any check and not a proof.

usage: tools/mutsweep.py [--n 300] [--seed 1] [--jobs 14] [--file syncobj.py] [--out .work/mutsweep.json]
       tools/mutsweep.py --worker <mutdir> <itemsfile> <baselinefile>      (internal)
"""
import ast
import copy
import hashlib
import json
import os
import random
import shutil
import subprocess
import sys
import time

VERIF = '/verif'
REPO = '/repo'


# ---------------------------------------------------------------------------------------------- mutants
class Site(object):
    def __init__(self, kind, lineno, col, desc, apply):
        self.kind, self.lineno, self.col, self.desc, self.apply = kind, lineno, col, desc, apply


CMP_FLIP = {ast.Lt: ast.LtE, ast.LtE: ast.Lt, ast.Gt: ast.GtE, ast.GtE: ast.Gt, ast.Eq: ast.NotEq, ast.NotEq: ast.Eq,
            ast.Is: ast.IsNot, ast.IsNot: ast.Is, ast.In: ast.NotIn, ast.NotIn: ast.In}


def sites_of(tree):
    """[(kind, node-path, description)] - every place where one mutation can be applied"""
    out = []
    for node in ast.walk(tree):
        ln = getattr(node, 'lineno', None)
        if ln is None:
            continue
        if isinstance(node, ast.Compare) and len(node.ops) == 1 and type(node.ops[0]) in CMP_FLIP:
            out.append(('cmp', node, '%s -> %s' % (type(node.ops[0]).__name__, CMP_FLIP[type(node.ops[0])].__name__)))
        if isinstance(node, ast.BoolOp):
            out.append(('boolop', node, '%s -> %s' % (type(node.op).__name__, 'Or' if isinstance(node.op, ast.And) else 'And')))
        if isinstance(node, ast.UnaryOp) and isinstance(node.op, ast.Not):
            out.append(('not', node, 'not x -> x'))
        if isinstance(node, ast.BinOp) and isinstance(node.op, (ast.Add, ast.Sub)) and isinstance(node.right, ast.Constant) \
                and isinstance(node.right.value, int) and not isinstance(node.right.value, bool) and node.right.value in (1, 2):
            out.append(('offby', node, '%s %d -> dropped' % (type(node.op).__name__, node.right.value)))
            out.append(('offby2', node, '%s -> %s' % (type(node.op).__name__, 'Sub' if isinstance(node.op, ast.Add) else 'Add')))
        if isinstance(node, ast.Call) and isinstance(node.func, ast.Name) and node.func.id in ('min', 'max'):
            out.append(('minmax', node, '%s -> %s' % (node.func.id, 'max' if node.func.id == 'min' else 'min')))
        if isinstance(node, ast.Constant) and isinstance(node.value, bool):
            out.append(('bool', node, '%r -> %r' % (node.value, not node.value)))
        if isinstance(node, (ast.If, ast.While)) and not isinstance(node.test, ast.Constant):
            out.append(('iftrue', node, 'condition -> True'))
            out.append(('iffalse', node, 'condition -> False'))
        if isinstance(node, (ast.Assign, ast.AugAssign, ast.Expr, ast.Return, ast.Break, ast.Continue)) \
                and not (isinstance(node, ast.Expr) and isinstance(node.value, ast.Constant)):
            out.append(('del', node, 'statement deleted'))
    return out


def mutate(src, index):
    """the source with the index-th mutation site applied, (lineno, kind, desc)"""
    tree = ast.parse(src)
    sites = sites_of(tree)
    kind, node, desc = sites[index]
    ln = node.lineno
    if kind == 'cmp':
        node.ops = [CMP_FLIP[type(node.ops[0])]()]
    elif kind == 'boolop':
        node.op = ast.Or() if isinstance(node.op, ast.And) else ast.And()
    elif kind == 'offby2':
        node.op = ast.Sub() if isinstance(node.op, ast.Add) else ast.Add()
    elif kind == 'minmax':
        node.func.id = 'max' if node.func.id == 'min' else 'min'
    elif kind == 'bool':
        node.value = not node.value
    elif kind == 'iftrue':
        node.test = ast.Constant(value=True)
    elif kind == 'iffalse':
        node.test = ast.Constant(value=False)
    if kind in ('not', 'offby', 'del'):
        class T(ast.NodeTransformer):
            def visit(self, n):
                if n is node:
                    if kind == 'not':
                        return n.operand
                    if kind == 'offby':
                        return n.left
                    if kind == 'del':
                        return ast.Pass() if not isinstance(n, ast.Return) else ast.Return(value=None)
                return self.generic_visit(n)
        tree = T().visit(tree)
    ast.fix_missing_locations(tree)
    return ast.unparse(tree), (ln, kind, desc)


# ---------------------------------------------------------------------------------------------- worker
def worker(mutdir, itemsfile, basefile):
    os.environ['VERIF_REPO'] = mutdir
    os.environ['VERIF_SRCCOV'] = '0'
    sys.path.insert(0, VERIF)
    sys.path.insert(0, mutdir)
    import resource
    resource.setrlimit(resource.RLIMIT_AS, (6 << 30, 6 << 30))
    from props import raftcommon as R
    items = json.load(open(itemsfile))
    base = json.load(open(basefile)) if basefile != '-' else None
    out = {}
    verdict = 'survived'
    detail = None
    work = os.path.join(mutdir, 'work')
    os.makedirs(work, exist_ok=True)
    after_kill = 0
    for it in items:
        if verdict == 'killed-by-correspondence':
            after_kill += 1
            if after_kill > 6:          # a few more traces in search of a concrete monitor record, then stop
                break
        key = '%s:%s' % (it[0], it[1])
        try:
            rec, mon = R.run_one(tuple(it), work)
        except BaseException as e:
            if base is None:
                out[key] = {'crash': repr(e)[:200]}
                continue
            verdict, detail = 'crashed', {'item': it, 'error': repr(e)[:300]}
            break
        dg = [str(d) for d in rec.digests]
        recs = [list(r) for r in mon.records[:3]]
        if base is None:
            out[key] = {'digests': hashlib.sha256('|'.join(dg).encode()).hexdigest(), 'n': len(dg), 'records': recs,
                        'per': dg}
            continue
        b = base.get(key)
        if b is None or 'crash' in b:
            continue
        new_recs = [r for r in recs if r not in b['records']]
        if new_recs:
            verdict, detail = 'killed-by-monitor', {'item': it, 'record': new_recs[0]}
            break
        if dg != b['per']:
            k = next((i for i, (x, y) in enumerate(zip(dg, b['per'])) if x != y), min(len(dg), len(b['per'])))
            if verdict == 'survived':
                verdict, detail = 'killed-by-correspondence', {'item': it, 'first_diverging_step': k}
            # go on: a later trace may give a concrete monitor record
    shutil.rmtree(work, ignore_errors=True)
    if base is None:
        json.dump(out, sys.stdout)
    else:
        json.dump({'verdict': verdict, 'detail': detail}, sys.stdout)


# ---------------------------------------------------------------------------------------------- driver
def covered_lines(fname):
    """lines of fname executed by compared traces, from the newest cached raft run (or all lines when unknown)"""
    cdir = os.path.join(VERIF, '.work', 'raftcache')
    best = None
    for f in sorted(os.listdir(cdir), key=lambda f: os.path.getmtime(os.path.join(cdir, f))) if os.path.isdir(cdir) else []:
        best = os.path.join(cdir, f)
    if best is None:
        return None
    res = json.load(open(best))
    sc = (res.get('source_coverage') or {}).get(fname)
    if not sc:
        return None
    miss = set()
    for rngs in sc['not_reached_by_a_compared_trace'].values():
        for r in rngs:
            a, _, b = r.partition('-')
            miss.update(range(int(a), int(b or a) + 1))
    return miss


def main():
    import argparse
    ap = argparse.ArgumentParser()
    ap.add_argument('--worker', nargs=3)
    ap.add_argument('--n', type=int, default=300)
    ap.add_argument('--seed', type=int, default=1)
    ap.add_argument('--jobs', type=int, default=14)
    ap.add_argument('--file', default='syncobj.py')
    ap.add_argument('--traces', type=int, default=6, help='random traces per generator besides all scenarios')
    ap.add_argument('--out', default=os.path.join(VERIF, '.work', 'mutsweep.json'))
    a = ap.parse_args()
    if a.worker:
        return worker(*a.worker)
    sys.path.insert(0, VERIF)
    sys.path.insert(0, REPO)
    from harness import raft_scenarios
    items = [['scenario', n, 0] for n in raft_scenarios.NAMES]
    for g in ('random_trace', 'ro_trace', 'member_trace', 'journal_trace', 'lag_trace'):
        for i in range(a.traces):
            items.append([g, 7000 + i, 160])
    root = os.path.join(VERIF, '.work', 'mutsweep')
    shutil.rmtree(root, ignore_errors=True)
    os.makedirs(root)
    itemsfile = os.path.join(root, 'items.json')
    json.dump(items, open(itemsfile, 'w'))
    env = dict(os.environ, PYTHONHASHSEED='0', PYTHONDONTWRITEBYTECODE='1')

    def make_dir(name, src_text=None):
        d = os.path.join(root, name)
        # every mutant is made from the copy taken at the start (the 'base' directory), not from /repo as it is later
        origin = os.path.join(root, 'base', 'pysyncobj') if name != 'base' else os.path.join(REPO, 'pysyncobj')
        shutil.copytree(origin, os.path.join(d, 'pysyncobj'), ignore=shutil.ignore_patterns('__pycache__'))
        if src_text is not None:
            open(os.path.join(d, 'pysyncobj', a.file), 'w').write(src_text)
        return d
    t0 = time.time()
    # baseline: the unchanged code, split over the jobs
    bdir = make_dir('base')
    parts = [items[i::a.jobs] for i in range(a.jobs)]
    procs = []
    for i, part in enumerate(parts):
        f = os.path.join(root, 'items_%d.json' % i)
        json.dump(part, open(f, 'w'))
        procs.append(subprocess.Popen([sys.executable, __file__, '--worker', bdir, f, '-'], stdout=subprocess.PIPE, env=env))
    base = {}
    for p in procs:
        base.update(json.loads(p.communicate()[0]))
    basefile = os.path.join(root, 'base.json')
    json.dump(base, open(basefile, 'w'))
    print('baseline: %d traces, %d crashed, %.0fs' % (len(base), sum(1 for v in base.values() if 'crash' in v), time.time() - t0), flush=True)
    src = open(os.path.join(bdir, 'pysyncobj', a.file)).read()
    sites = sites_of(ast.parse(src))
    src_norm = ast.unparse(ast.parse(src))
    miss = covered_lines(a.file)
    idx = [i for i, (k, n, d) in enumerate(sites) if miss is None or n.lineno not in miss]
    print('%d mutation sites, %d on lines the compared traces execute' % (len(sites), len(idx)), flush=True)
    rng = random.Random(a.seed)
    rng.shuffle(idx)
    idx = idx[:a.n]
    results = []
    running = []
    pending = list(idx)
    done = 0

    def launch(i):
        try:
            text, info = mutate(src, i)
            compile(text, a.file, 'exec')
            if text == src_norm:
                raise ValueError('no change')
        except Exception as e:
            results.append({'site': i, 'verdict': 'invalid', 'error': repr(e)[:100]})
            return None
        d = make_dir('m%d' % i, text)
        outf = open(os.path.join(d, 'out.json'), 'w')       # not a pipe: nobody reads it while the worker runs
        p = subprocess.Popen([sys.executable, __file__, '--worker', d, itemsfile, basefile], stdout=outf,
                             stderr=subprocess.DEVNULL, env=env)
        outf.close()
        return (i, info, d, p, time.time())
    while pending or running:
        while pending and len(running) < a.jobs:
            r = launch(pending.pop())
            if r:
                running.append(r)
        time.sleep(0.5)
        for r in list(running):
            i, info, d, p, ts = r
            if p.poll() is None:
                if time.time() - ts > 900:
                    p.kill()
                    results.append({'site': i, 'line': info[0], 'kind': info[1], 'desc': info[2], 'verdict': 'timeout'})
                    running.remove(r)
                    shutil.rmtree(d, ignore_errors=True)
                continue
            running.remove(r)
            try:
                v = json.load(open(os.path.join(d, 'out.json')))
            except Exception:
                v = {'verdict': 'crashed', 'detail': 'worker died'}
            results.append({'site': i, 'line': info[0], 'kind': info[1], 'desc': info[2], 'verdict': v['verdict'], 'detail': v.get('detail')})
            shutil.rmtree(d, ignore_errors=True)
            done += 1
            if done % 20 == 0:
                c = {}
                for x in results:
                    c[x['verdict']] = c.get(x['verdict'], 0) + 1
                print('%d/%d %r %.0fs' % (done, len(idx), c, time.time() - t0), flush=True)
    c = {}
    for x in results:
        c[x['verdict']] = c.get(x['verdict'], 0) + 1
    lines = src.split('\n')
    surv = sorted((x for x in results if x['verdict'] in ('survived', 'timeout')), key=lambda x: x['line'])
    for x in surv:
        x['source'] = lines[x['line'] - 1].strip()[:140]
    json.dump({'file': a.file, 'sites': len(sites), 'sites_on_compared_lines': len([1 for i, (k, n, d) in enumerate(sites) if miss is None or n.lineno not in miss]),
               'tried': len(idx), 'verdicts': c, 'traces_per_mutant': len(items), 'survivors': surv, 'all': results,
               'wall_s': round(time.time() - t0)}, open(a.out, 'w'), indent=1)
    print('verdicts', c)
    for x in surv:
        print('SURVIVED %s:%d %s [%s]  %s' % (a.file, x['line'], x['desc'], x['kind'], x['source']))
    shutil.rmtree(root, ignore_errors=True)


if __name__ == '__main__':
    main()
