#!/bin/bash
# tools/seedrecheck.sh <seed-name> <property> [more properties...]
# applies the stored patch to /repo, runs the quick checks of the given properties, undoes it straight afterwards
name=$1; shift
out=/verif/seeded/$name
cd /verif
if ! git -C /repo diff --quiet; then echo "/repo is dirty, abort"; exit 2; fi
git -C /repo apply $out/patch.diff || { echo "patch does not apply"; exit 2; }
trap 'git -C /repo checkout -- .; git -C /verif checkout -- coq/Batteries/Gen.v coq/Lock/Gen.v' EXIT
results=""
for p in "$@"; do
  ( ./check $p --tier quick > $out/check_$p.log 2>&1 ); rc=$?
  v=$(grep -c "^VIOLATION" $out/check_$p.log)
  nf=$(grep -c "no-failing-input-found" $out/check_$p.log)
  echo "$name check $p: exit $rc, VIOLATION lines $v (no-failing-input-found: $nf)"
  grep "^VIOLATION\|^\[$p\] " $out/check_$p.log | head -4 | cut -c1-300
  results="$results $p:$rc:$v:$nf"
done
prev=$(cut -d' ' -f1,2 $out/result.txt 2>/dev/null)
echo "$prev $results" > $out/result.txt
