#!/bin/bash
# tools/seedall.sh - re-run every stored seeded change against the checks recorded for it (quick tier);
# prints one line per seed/property and a summary; /repo is restored after every seed.
cd /verif
miss=0
for d in seeded/*/; do
  n=$(basename $d)
  if [ -f $d/SUPERSEDED ]; then echo "SUPERSEDED $n"; continue; fi
  props=$(python3 -c "import json;print(' '.join(sorted(json.load(open('$d/meta.json'))['checks'])))")
  out=$(tools/seedrecheck.sh $n $props 2>&1 | grep "check C")
  echo "$out"
  if ! echo "$out" | grep -q "exit 1, VIOLATION lines [1-9]"; then echo "MISSED $n"; miss=$((miss+1)); fi
  if ! git -C /repo diff --quiet; then echo "/repo dirty after $n"; git -C /repo checkout -- .; fi
done
echo "seeds missed: $miss"
