#!/venv/bin/python
"""tools/mutsweep2.py --comp c13|c14|c08 - the mutation sweep of tools/mutsweep.py for the component checks.

Each component check has a worker function that runs the implementation on generated cases and returns, per case, the
Coq text of the case (inputs + the observations of the implementation, which the model must reproduce) and the monitor's
problems.  On the unchanged tree the model reproduces every case, so a mutant is seen by the correspondence exactly when
the generated case text differs from the unchanged code's, and by the monitor when `problems` is not empty.
A measurement and a search aid for blind spots, not part of any check and not a proof."""
import ast
import hashlib
import importlib
import importlib.util
import json
import os
import random
import shutil
import subprocess
import sys
import time

VERIF = '/verif'
REPO = os.environ.get('MUT_REPO', '/repo')
spec = importlib.util.spec_from_file_location('mutsweep', os.path.join(VERIF, 'tools', 'mutsweep.py'))
MS = importlib.util.module_from_spec(spec)
spec.loader.exec_module(MS)

COMPS = {
    # name: (module, worker, source file, chunk builder)
    'c13': ('props.c13', '_case_worker', 'tcp_connection.py', lambda work: list(range(9000, 9400))),
    'c14': ('props.c14', '_case_worker', 'transport.py', None),
    'c08': ('props.c08', '_worker', 'journal.py', lambda work: ([{'seed': s} for s in range(9000, 9160)], work, False)),
}
TEXT_KEYS = ('defs', 'call', 'calls', 'expected', 'lit_gen', 'lit_spec')


def fingerprint(results):
    out = []
    for r in results:
        if 'crash' in r:
            out.append(('crash',))
            continue
        h = hashlib.sha256()
        for k in TEXT_KEYS:
            if k in r:
                h.update(json.dumps(r[k], sort_keys=True, default=str).encode())
        out.append((h.hexdigest(), bool(r.get('problems')), (r.get('problems') or [None])[0]))
    return out


def worker(comp, mutdir):
    os.environ['VERIF_REPO'] = mutdir
    os.environ['VERIF_SRCCOV'] = '0'
    sys.path.insert(0, VERIF)
    sys.path.insert(0, mutdir)
    import resource
    resource.setrlimit(resource.RLIMIT_AS, (6 << 30, 6 << 30))
    resource.setrlimit(resource.RLIMIT_CPU, (600, 600))
    mod_name, fn, _, chunk = COMPS[comp]
    mod = importlib.import_module(mod_name)
    work = os.path.join(mutdir, 'work')
    os.makedirs(work, exist_ok=True)
    if comp == 'c14':
        from harness import transport as H
        arg = sorted(H.SCRIPTS) + list(range(9000, 9300))
    else:
        arg = chunk(work)
    res = getattr(mod, fn)(arg)
    json.dump(fingerprint(res), sys.stdout)


def main():
    import argparse
    ap = argparse.ArgumentParser()
    ap.add_argument('--worker', nargs=2)
    ap.add_argument('--comp', default='c13')
    ap.add_argument('--n', type=int, default=200)
    ap.add_argument('--seed', type=int, default=1)
    ap.add_argument('--jobs', type=int, default=10)
    ap.add_argument('--out', default=None)
    a = ap.parse_args()
    if a.worker:
        return worker(*a.worker)
    _, _, fname, _ = COMPS[a.comp]
    out_path = a.out or os.path.join(VERIF, '.work', 'mutsweep_%s.json' % a.comp)
    root = os.path.join(VERIF, '.work', 'mutsweep2_' + a.comp)
    shutil.rmtree(root, ignore_errors=True)
    os.makedirs(root)
    env = dict(os.environ, PYTHONHASHSEED='0', PYTHONDONTWRITEBYTECODE='1')
    bdir = os.path.join(root, 'base')
    shutil.copytree(os.path.join(REPO, 'pysyncobj'), os.path.join(bdir, 'pysyncobj'), ignore=shutil.ignore_patterns('__pycache__'))
    t0 = time.time()
    p = subprocess.run([sys.executable, __file__, '--worker', a.comp, bdir], stdout=subprocess.PIPE, stderr=subprocess.PIPE, env=env)
    if p.returncode != 0:
        print(p.stderr.decode()[-2000:])
        return 1
    base = json.loads(p.stdout)
    again = json.loads(subprocess.run([sys.executable, __file__, '--worker', a.comp, bdir], stdout=subprocess.PIPE, env=env).stdout)
    print('baseline: %d cases, %d crashed, %d with problems, deterministic: %s, %.0fs'
          % (len(base), sum(1 for b in base if b[0] == 'crash'), sum(1 for b in base if len(b) > 1 and b[1]), base == again,
             time.time() - t0), flush=True)
    src = open(os.path.join(bdir, 'pysyncobj', fname)).read()
    src_norm = ast.unparse(ast.parse(src))
    sites = MS.sites_of(ast.parse(src))
    idx = list(range(len(sites)))
    random.Random(a.seed).shuffle(idx)
    idx = idx[:a.n]
    results, running, pending, done = [], [], list(idx), 0

    def launch(i):
        try:
            text, info = MS.mutate(src, i)
            compile(text, fname, 'exec')
            if text == src_norm:
                raise ValueError('no change')
        except Exception as e:
            results.append({'site': i, 'verdict': 'invalid', 'error': repr(e)[:100]})
            return None
        d = os.path.join(root, 'm%d' % i)
        shutil.copytree(os.path.join(bdir, 'pysyncobj'), os.path.join(d, 'pysyncobj'))
        open(os.path.join(d, 'pysyncobj', fname), 'w').write(text)
        # the worker's output goes to a file: a pipe nobody reads blocks the worker once its buffer (64 KiB) is full
        outf = open(os.path.join(d, 'out.json'), 'w')
        pr = subprocess.Popen([sys.executable, __file__, '--worker', a.comp, d], stdout=outf, stderr=subprocess.DEVNULL, env=env)
        outf.close()
        return (i, info, d, pr, time.time())
    while pending or running:
        while pending and len(running) < a.jobs:
            r = launch(pending.pop())
            if r:
                running.append(r)
        time.sleep(0.3)
        for r in list(running):
            i, info, d, pr, ts = r
            if pr.poll() is None:
                if time.time() - ts > 700:
                    pr.kill()
                    results.append({'site': i, 'line': info[0], 'kind': info[1], 'desc': info[2], 'verdict': 'timeout'})
                    running.remove(r)
                    shutil.rmtree(d, ignore_errors=True)
                continue
            running.remove(r)
            try:
                fp = json.load(open(os.path.join(d, 'out.json')))
                new_problem = next((x[2] for x, b in zip(fp, base) if len(x) > 1 and x[1] and not (len(b) > 1 and b[1])), None)
                if new_problem is not None:
                    v = 'killed-by-monitor'
                elif any(x[0] == 'crash' and b[0] != 'crash' for x, b in zip(fp, base)):
                    v = 'crashed'
                elif [x[0] for x in fp] != [b[0] for b in base]:
                    v = 'killed-by-correspondence'
                else:
                    v = 'survived'
            except Exception:
                v, new_problem = 'crashed', None
            results.append({'site': i, 'line': info[0], 'kind': info[1], 'desc': info[2], 'verdict': v, 'problem': new_problem})
            shutil.rmtree(d, ignore_errors=True)
            done += 1
            if done % 20 == 0:
                c = {}
                for x in results:
                    c[x['verdict']] = c.get(x['verdict'], 0) + 1
                print('%d/%d %r %.0fs' % (done, len(idx), c, time.time() - t0), flush=True)
    c = {}
    for x in results:
        c[x['verdict']] = c.get(x['verdict'], 0) + 1
    lines = src.split('\n')
    surv = sorted((x for x in results if x['verdict'] == 'survived'), key=lambda x: x['line'])
    for x in surv:
        x['source'] = lines[x['line'] - 1].strip()[:140]
    json.dump({'component': a.comp, 'file': fname, 'sites': len(sites), 'tried': len(idx), 'verdicts': c, 'survivors': surv,
               'all': results, 'wall_s': round(time.time() - t0)}, open(out_path, 'w'), indent=1)
    print('verdicts', c)
    for x in surv:
        print('SURVIVED %s:%d %s [%s]  %s' % (fname, x['line'], x['desc'], x['kind'], x['source']))
    for x in results:
        if x['verdict'] == 'timeout':
            print('TIMEOUT %s:%d %s [%s]' % (fname, x['line'], x['desc'], x['kind']))
    shutil.rmtree(root, ignore_errors=True)


if __name__ == '__main__':
    sys.exit(main() or 0)
