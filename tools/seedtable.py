#!/usr/bin/env python3
"""Rewrites the table of seeded changes in DESIGN.md (between the SEEDED markers) from seeded/*/meta.json."""
import json, os, re
root = '/verif/seeded'
rows = ['| seed | property | what the change does | needs | caught by (quick tier) |', '|---|---|---|---|---|']
for d in sorted(os.listdir(root)):
    mp = os.path.join(root, d, 'meta.json')
    if not os.path.exists(mp):
        continue
    m = json.load(open(mp))
    def short(x, n):
        x = re.sub(r'\s+', ' ', (x or '').replace('|', '/'))
        return x[:n] + ('…' if len(x) > n else '')
    caught = []
    for pid, c in sorted(m['checks'].items()):
        if c['caught']:
            caught.append('%s %s' % (pid, 'concrete input: ' + short(re.sub(r'^\[\w+\] ', '', c['first_report']), 110) if c['concrete_input']
                                     else 'broken correspondence / obligation, no-failing-input-found'))
        else:
            caught.append('%s MISSED' % pid)
    if m.get('note'):
        caught.append('NOTE: ' + short(m['note'], 260))
    if m.get('superseded'):
        caught.append('SUPERSEDED: ' + short(m['superseded'], 200))
    rows.append('| %s | %s | %s | %s | %s |' % (d, m['property'], short(m['summary'], 230), short(m['needs_to_manifest'], 200), '; '.join(caught)))
p = '/verif/DESIGN.md'
s = open(p).read()
a, b = '<!-- SEEDED-BEGIN -->', '<!-- SEEDED-END -->'
block = a + '\n' + '\n'.join(rows) + '\n' + b
if a in s:
    s = s[:s.index(a)] + block + s[s.index(b) + len(b):]
else:
    s = s.rstrip('\n') + '\n\n## 15. Seeded changes and what catches them\n\nEach change was written by a fresh sub-agent that saw only the property text and its own scratch worktree of /repo\n(nothing from /verif), had to keep the package importable and the existing suite green, and had to need something\nspecific to manifest.  I kept a change only after confirming its demonstration myself (fails with the change, passes\nwithout).  To test: `git -C /repo apply seeded/<name>/patch.diff`, `./check <id> --tier quick`, `git -C /repo checkout -- .`\n(`tools/seedtest.sh`, `tools/seedrecheck.sh`); none is ever committed to /repo.  Where a check missed a change the\ncheck was strengthened (history in `seeded/<name>/meta.json`): C13 reconnect model, C16 snapshot replica + cluster\nbatteries monitor, scripted scenarios `fig8`, `stale_match_reelected`, `compact_during_install`, `member_rollback`,\nper-generator accounting for C18.\n\n' + block + '\n'
open(p, 'w').write(s)
print(len(rows) - 2, 'seeds')
