#!/usr/bin/env python3
"""Compose seeded/<name>/meta.json from the agent's meta, the demo outputs and the check results."""
import json, os, sys, glob
root = '/verif/seeded'
for d in sorted(os.listdir(root)):
    p = os.path.join(root, d)
    if not os.path.isdir(p) or not os.path.exists(os.path.join(p, 'result.txt')):
        continue
    agent = {}
    try:
        agent = json.load(open(os.path.join(p, 'meta_agent.json')))
    except Exception:
        pass
    parts = open(os.path.join(p, 'result.txt')).read().split()
    checks = {}
    for x in parts[2:]:
        pid, rc, v, nf = x.split(':')
        first = ''
        log = os.path.join(p, 'check_%s.log' % pid)
        if os.path.exists(log):
            for line in open(log):
                if line.startswith('[%s] ' % pid) and 'monitor' in line or 'no longer shown' in line or 'through a replicated' in line:
                    first = line.strip()[:300]
                    break
        checks[pid] = {'exit': int(rc), 'violation_lines': int(v), 'no_failing_input_found': int(nf),
                       'caught': int(rc) == 1 and int(v) > 0, 'concrete_input': int(v) > int(nf), 'first_report': first}
    prev = {}
    mp = os.path.join(p, 'meta.json')
    if os.path.exists(mp):
        prev = json.load(open(mp))
    meta = {
        'property': agent.get('property', d.split('-')[0]),
        'summary': agent.get('summary'),
        'needs_to_manifest': agent.get('needs'),
        'files': agent.get('files'),
        'why_tests_pass': agent.get('why_tests_pass'),
        'source': 'independent sub-agent given only the property text and a scratch worktree',
        'confirmed': {'demo_exit_with_change': int(parts[0]), 'demo_exit_without_change': int(parts[1]),
                      'test_suite': 'run by the sub-agent in its worktree: only the 4 always-failing baseline tests fail (see its report)',
                      'how': 'tools/seedtest.sh: demo run in the scratch worktree with and without the change; patch applied to /repo, ./check <id> --tier quick, patch undone'},
        'checks': checks,
        'history': prev.get('history', []),
    }
    if os.path.exists(os.path.join(p, 'SUPERSEDED')):
        meta['superseded'] = open(os.path.join(p, 'SUPERSEDED')).read().strip()
    if os.path.exists(os.path.join(p, 'NOTE')):
        meta['note'] = open(os.path.join(p, 'NOTE')).read().strip()
    if prev.get('checks') and prev['checks'] != checks:
        meta['history'] = prev.get('history', []) + [{'earlier_result': prev['checks']}]
    json.dump(meta, open(mp, 'w'), indent=1)
    print(d, {k: (v['caught'], v['concrete_input']) for k, v in checks.items()})
