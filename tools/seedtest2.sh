#!/bin/bash
# tools/seedtest2.sh <seed-name> <worktree> <property> [more properties...]
# as tools/seedtest.sh, but /repo is not touched: the patch is applied to a scratch copy of /repo's HEAD and the checks
# read that copy through VERIF_REPO (for use while something else reads /repo, e.g. a long thorough run)
name=$1; wt=$2; shift 2
out=/verif/seeded/$name; mkdir -p $out
cp $wt/seed_patch.diff $out/patch.diff; cp $wt/seed_demo.py $out/demo.py; cp $wt/seed_meta.json $out/meta_agent.json
cd $wt
git checkout -q -- pysyncobj && git apply seed_patch.diff || { echo "seed_patch.diff does not apply to a clean worktree"; exit 2; }
( timeout 300 /venv/bin/python seed_demo.py > $out/demo_with_change.txt 2>&1 ); with=$?
git apply -R seed_patch.diff
( timeout 300 /venv/bin/python seed_demo.py > $out/demo_without_change.txt 2>&1 ); without=$?
git apply seed_patch.diff
echo "demo exit with change: $with, without: $without"
cd /verif
copy=/tmp/seedcopy_$$; rm -rf $copy; mkdir -p $copy
git -C /repo archive HEAD | tar -x -C $copy
( cd $copy && git init -q . && git apply $out/patch.diff ) || { echo "patch does not apply"; rm -rf $copy; exit 2; }
results=""
for p in "$@"; do
  ( VERIF_REPO=$copy ./check $p --tier quick > $out/check_$p.log 2>&1 ); rc=$?
  v=$(grep -c "^VIOLATION" $out/check_$p.log)
  nf=$(grep -c "no-failing-input-found" $out/check_$p.log)
  echo "check $p: exit $rc, VIOLATION lines $v (no-failing-input-found: $nf)"
  grep "^VIOLATION\|^\[$p\] " $out/check_$p.log | head -4 | cut -c1-300
  results="$results $p:$rc:$v:$nf"
done
rm -rf $copy; git -C /verif checkout -- coq/Batteries/Gen.v coq/Lock/Gen.v 2>/dev/null
echo "$with $without $results" > $out/result.txt
