#!/usr/bin/env python3
"""Soak: the shared Raft run (any tier/seed) on the current tree, printing divergences and unexcused monitor records.
usage: tools/raft_soak.py <tier> <seed>      (compiles coq/Raft first when needed)"""
import os, subprocess, sys
V = os.path.dirname(os.path.dirname(os.path.abspath(__file__)))
sys.path.insert(0, V)
os.chdir(V)
for f in ('Types', 'Node', 'Net', 'Obs'):
    if not os.path.exists(os.path.join(V, 'coq', 'Raft', f + '.vo')):
        subprocess.check_call(['coqc', '-Q', '.', 'PSO', 'Raft/%s.v' % f], cwd=os.path.join(V, 'coq'))
from vlib.ctx import Ctx
from props import raftcommon as R
ctx = Ctx('C01', sys.argv[1], int(sys.argv[2]))
res = R.raft_run(ctx)
byprop = {}
for t in res['traces']:
    if 'crash' in t:
        print('CRASH', t['item'], t['crash'][-600:])
        continue
    for r in t['records']:
        byprop.setdefault(r[0], []).append((t['item'], r[1][:160], r[2]))
for k, v in sorted(byprop.items()):
    print('RECORDS', k, len(v), v[:3])
print('DIVERGENCES', [(t['item'], t['divergence']) for t in res['traces'] if 'crash' not in t and t.get('divergence') is not None])
print('traces', len(res['traces']), 'wall', res['wall_total'])
