#!/bin/bash
# tools/seedtest.sh <seed-name> <worktree> <property> [more properties...]
# 1. confirms the demonstration (fails with the change, passes without) in the scratch worktree
# 2. stores patch/demo/meta under /verif/seeded/<seed-name>/
# 3. applies the patch to /repo, runs the quick checks of the given properties, undoes it
name=$1; wt=$2; shift 2
out=/verif/seeded/$name; mkdir -p $out
cp $wt/seed_patch.diff $out/patch.diff; cp $wt/seed_demo.py $out/demo.py; cp $wt/seed_meta.json $out/meta_agent.json
cd $wt
# (no git stash: the stash is shared by all worktrees of a repository)
git checkout -q -- pysyncobj && git apply seed_patch.diff || { echo "seed_patch.diff does not apply to a clean worktree"; exit 2; }
( timeout 300 /venv/bin/python seed_demo.py > $out/demo_with_change.txt 2>&1 ); with=$?
git apply -R seed_patch.diff
( timeout 300 /venv/bin/python seed_demo.py > $out/demo_without_change.txt 2>&1 ); without=$?
git apply seed_patch.diff
echo "demo exit with change: $with, without: $without"
cd /verif
if ! git -C /repo diff --quiet; then echo "/repo is dirty, abort"; exit 2; fi
git -C /repo apply $out/patch.diff || { echo "patch does not apply"; exit 2; }
results=""
for p in "$@"; do
  ( ./check $p --tier quick > $out/check_$p.log 2>&1 ); rc=$?
  v=$(grep -c "^VIOLATION" $out/check_$p.log)
  nf=$(grep -c "no-failing-input-found" $out/check_$p.log)
  echo "check $p: exit $rc, VIOLATION lines $v (no-failing-input-found: $nf)"
  grep "^VIOLATION\|^\[$p\] " $out/check_$p.log | head -4
  results="$results $p:$rc:$v:$nf"
done
git -C /repo checkout -- . ; git -C /verif checkout -- coq/Batteries/Gen.v coq/Lock/Gen.v; git -C /repo status --short
echo "$with $without $results" > $out/result.txt
